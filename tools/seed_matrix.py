#!/usr/bin/env python3
"""Apply each seeded change to /repo, run the quick check(s) that should catch it, undo it, and record the outcome in seeded/<id>/meta.json."""
import json, os, subprocess, sys, re
V = "/verif"
NEEDS = {
 "C01": "en-passant capture where king, captured pawn, capturing pawn and an enemy rook/queen stand on one rank in that order (capturer's from-square not on a king ray)",
 "C02": "double pawn push on the a- or h-file with an enemy pawn on the opposite edge file one rank 'around the corner' (bit-shift wrap-around sets an en-passant square without capturer)",
 "C03": "on-demand tablebase resident (go infinite on a <=4-men pawnless root, Hash >= 7 MB) and TBProbe::extendPV truncating a PV at a tablebase win: the reported PV loses a move (empty / unplayable PV, duplicate MultiPV first moves)",
 "C04": "on-demand 4-men table in which the white king can capture a black piece (KQvKR, KRvKB, ...) used by an unlimited search: false mate distances",
 "C05": "MultiPV > 1 together with Strength < 200 (root moves dropped): out-of-bounds access at the end of iteration 1, engine dies without bestmove",
 "C06": "hard limit at the clock-minus-buffer clamp (movestogo 1..3 or little clock), hardFactor > hard/soft after a root fail-low, limit expiring while root move 1 is searched",
 "C07": "move made while the evaluator's current stack level is invalid (after copy-assignment / connect) without an evaluation in between, kings on the same squares as in the stale slot",
 "C08": "Hash sizes whose reduced size crosses a power of two (256, 258, 260, 512 ... MB) with a 4-men on-demand tablebase resident and keys in the topmost index slice",
 "C09": "two clock-based searches with an option change (Ponder / BufferTime ...) queued in between: computeTimeLimit on the protocol thread reads UCI parameters while the engine thread may still apply them (stopThread moved after the reads)",
 "C10": "two pre-emptions after a search that ended by itself: protocol thread between test and wait in waitStop while the engine thread clears 'search' and notifies",
 "C11": "history containing a double push beside an enemy pawn whose en-passant capture is illegal (pinned), the position after it recurring twice more (fixupEPSquare hoisted out of the replay loop)",
 "C12": "diagonally symmetric placements (all men on one long diagonal, or twin pieces on mirror squares) with the losing side to move: duplicate moves counted twice",
 "C13": "4-men root searched at two different half-move clocks that share a hash key once the exact clock is no longer mixed into historyHash for 4 men: the second search reuses a mate score that no longer fits the 50-move rule",
 "C14": "15 (mod 16) searches since start before Clear Hash (generation reset removed from clear(); identical to the defect fixed in 042a747)",
 "C15": "predecessor position with an en-passant right where, in the current position, the moved piece stands on the en-passant square or on the pushed pawn's origin square (includeAllEpSquares=true)",
 "C16": "no capture left between prefix and goal, a king boxed in by never-moving pieces whose free neighbour squares are attacked by still mobile enemy pawns",
 "C17": "a $NAG immediately followed by ')' / '(' / '{' / '*' without white space (compact export style)",
 "C18": "a polyglot key holding an illegal entry stored before a legal one (corrupted move byte, foreign entry)",
 "C19": "node whose search result is IGNORE_SCORE (all legal moves are book nodes) while every child expansion choice is pending",
 "C20": "a variable assigned -1 (legal value) taken for 'unassigned': constraints to later variables skipped",
}
CATCH = {  # checks expected to catch the change (first = the property's own check)
 "C01": ["C01"], "C02": ["C02"], "C03": ["C03"], "C04": ["C04", "C12", "C13"], "C05": ["C05", "C03"], "C06": ["C06"], "C07": ["C07"], "C08": ["C08"], "C09": ["C09"], "C10": ["C10"],
 "C11": ["C11"], "C12": ["C12"], "C13": ["C13"], "C14": ["C14"], "C15": ["C15"], "C16": ["C16"], "C17": ["C17"], "C18": ["C18"], "C19": ["C19"], "C20": ["C20"],
}
ids = sys.argv[1:] or sorted(d for d in os.listdir(os.path.join(V, "seeded")) if os.path.isdir(os.path.join(V, "seeded", d)))   # "C07" = first round, "C07b" = second round
subprocess.run(["rm","-rf","/verif/build/evidence.keep"]); subprocess.run(["cp","-a","/verif/evidence","/verif/build/evidence.keep"],check=True)
for sid in ids:
    d = os.path.join(V, "seeded", sid)
    patch = os.path.join(d, "patch.diff")
    if not os.path.exists(patch): print("no patch for", sid); continue
    subprocess.run(["git", "-C", "/repo", "checkout", "--", "."], check=True)
    r = subprocess.run(["git", "-C", "/repo", "apply", patch])
    results = {}
    prop = sid[:3]
    extra = []
    if os.path.exists(os.path.join(d, "also_run.txt")): extra = open(os.path.join(d, "also_run.txt")).read().split()
    checks = CATCH[sid] if sid in CATCH else [prop] + extra
    if r.returncode == 0:
        for chk in checks:
            p = subprocess.run([os.path.join(V, "bin/check"), chk, "quick"], capture_output=True, text=True, cwd=V)
            sigs = sorted(set(re.findall(r"violation sig=(\S+)", p.stdout)))
            results[chk] = dict(exit=p.returncode, violation_lines=len(re.findall(r"^VIOLATION ", p.stdout, re.M)), signatures=sigs[:6])
            print(sid, chk, results[chk], flush=True)
    subprocess.run(["git", "-C", "/repo", "checkout", "--", "."], check=True)
    conf = ""
    cl = "/tmp/seeds%s/%s/confirm.log" % (("2", prop) if sid.endswith("b") else ("3", prop) if sid.endswith("c") else ("4", prop) if sid.endswith("d") else ("", sid))
    if os.path.exists(cl): conf = open(cl).read().strip().splitlines()[-1]
    elif os.path.exists(os.path.join(d, "meta.json")): conf = json.load(open(os.path.join(d, "meta.json"))).get("confirmed", {}).get("result", "")
    needs = NEEDS.get(sid) or (open(os.path.join(d, "needs.txt")).read().strip() if os.path.exists(os.path.join(d, "needs.txt")) else "see NOTES.md")
    meta = dict(
        breaks_property=prop, needs_to_manifest=needs,
        source="independent sub-agent given only the property text and a scratch worktree",
        confirmed=dict(how="tools/confirm_seed.sh %s in its scratch worktree at /repo HEAD: bin/baseline.sh-equivalent (137 stable tests) passes with the patch; "
                           "the demonstration (run.sh) fails with the patch and passes without it" % prop, result=conf),
        patch_applies=(r.returncode == 0),
        checks_run={k: v for k, v in results.items()},
        caught_by=[k for k, v in results.items() if v["exit"] == 1 and v["violation_lines"] > 0],
        files=sorted(os.listdir(d)),
    )
    json.dump(meta, open(os.path.join(d, "meta.json"), "w"), indent=1)
subprocess.run(["rm", "-rf", os.path.join(V, "replay")])
subprocess.run(["rsync","-a","--delete","/verif/build/evidence.keep/","/verif/evidence/"],check=True)  # evidence must describe the unchanged tree

#!/bin/bash
# usage: [ROUND=2] confirm_seed.sh <ID> [demo args...]  -- confirm a seeded defect in its scratch worktree /tmp/wt<ROUND>-<ID> at /repo's HEAD:
# baseline OK with the patch, demo fails with the patch, demo passes without it. Writes /tmp/seeds<ROUND>/<ID>/confirm.log
ID="$1"; shift
R="${ROUND:-}"
WT=/tmp/wt$R-$ID; S=/tmp/seeds$R/$ID
exec > "$S/confirm.log" 2>&1
set -x
cd "$WT" || exit 2
git checkout -q -- . ; git clean -fdq -e _build
git checkout -q --detach "$(git -C /repo rev-parse HEAD)" || exit 2
git apply "$S/patch.diff" || { echo CONFIRM-FAIL patch does not apply; exit 1; }
"${SEEDTOOLS:-/tmp/seedtools}/baseline.sh" "$WT" | tail -3 | tee "$S/confirm.baseline"
RUN="$S/run.sh"
( cd "$S" && timeout 1800 bash "$RUN" "$WT" "$@" ); RC_WITH=$?
echo "demo with patch rc=$RC_WITH"
git checkout -q -- . ; git status --short
cmake --build _build 2>&1 | tail -1
( cd "$S" && timeout 1800 bash "$RUN" "$WT" "$@" ); RC_WITHOUT=$?
echo "demo without patch rc=$RC_WITHOUT"
git checkout -q -- .
if grep -q BASELINE-OK "$S/confirm.baseline" && [ $RC_WITH -ne 0 ] && [ $RC_WITHOUT -eq 0 ]; then echo "CONFIRM-OK $ID"; else echo "CONFIRM-FAIL $ID"; fi

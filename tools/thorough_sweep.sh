#!/bin/bash
# Run every thorough tier end-to-end on the current tree, one after the other; log exit code and wall time per check.
# usage: tools/thorough_sweep.sh [ID...]      (log: build/thorough_sweep.log)
cd "$(dirname "$0")/.."
ids=("$@"); [ ${#ids[@]} -eq 0 ] && ids=(C18 C20 C17 C11 C06 C08 C02 C01 C15 C19 C16 C12 C13 C04 C03 C14 C07 C05 C10 C09)
log=build/thorough_sweep.log
for id in "${ids[@]}"; do
  s=$(date +%s)
  bin/check "$id" thorough > "build/thorough_$id.out" 2>&1; rc=$?
  e=$(( $(date +%s) - s ))
  echo "$id rc=$rc wall=${e}s viol=$(grep -c '^VIOLATION' build/thorough_$id.out) known=$(grep -c '^KNOWN-FINDING' build/thorough_$id.out) $(grep -o '"exhaustive": *[a-z]*' evidence/$id.json | head -1)" | tee -a "$log"
done

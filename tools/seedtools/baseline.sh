#!/bin/bash
# usage: baseline.sh <worktree>   -- builds the worktree and runs the pinned test suite;
# prints BASELINE-OK if every test of the stable-pass list (143 tests) passes, BASELINE-FAIL otherwise.
set -e
WT="$1"
cd "$WT"
if [ ! -f _build/build.ninja ]; then
  cmake -G Ninja -B _build -DCMAKE_BUILD_TYPE=RelWithDebInfo -DCMAKE_CXX_FLAGS=-Wno-error >/dev/null
fi
cmake --build _build 2>&1 | tail -3
rm -f /tmp/seedtools/junit.$$.xml
ctest --test-dir _build -j8 --timeout 900 --output-junit /tmp/seedtools/junit.$$.xml >/dev/null 2>&1 || true
python3 - "$$" <<'PY'
import json,sys,xml.etree.ElementTree as ET
stable=set(x.split('::')[0] for x in json.load(open('/root/.vp/BASELINE.json'))['stable_pass'] if '.' in x.split('::')[0])
t=ET.parse('/tmp/seedtools/junit.%s.xml'%sys.argv[1]).getroot()
st={}
for tc in t.iter('testcase'):
    st[tc.get('name')]=tc.get('status')
bad=[n for n in sorted(stable) if st.get(n)!='run']
print("stable tests: %d, passing: %d"%(len(stable),len(stable)-len(bad)))
if bad:
    print("BASELINE-FAIL", bad)
else:
    print("BASELINE-OK")
PY
rm -f /tmp/seedtools/junit.$$.xml

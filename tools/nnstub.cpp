// Empty network data: Evaluate construction throws, like in the pinned tree (nndata.tbin.compr is empty).
extern "C" {
extern const unsigned char gNNDataData[] = {0};
extern const unsigned char* const gNNDataEnd = gNNDataData;
extern const unsigned int gNNDataSize = 0;
}

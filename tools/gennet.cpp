// Synthetic evaluation networks (DESIGN.md 3.3). usage: gennet <k> <out.tbin.compr>
// k=0 material-like, k=1 material + deterministic noise + small random heads, k=2 extreme weights.
#include "nntypes.hpp"
extern "C" {
#include "Lzma86Enc.h"
}
#include <fstream>
#include <sstream>
#include <cstring>
#include <cstdio>
#include <cstdlib>

static unsigned long long lcg = 0x9E3779B97F4A7C15ULL;
static int rnd(int lo, int hi) { // inclusive, deterministic
    lcg = lcg * 6364136223846793005ULL + 1442695040888963407ULL;
    unsigned r = (unsigned)(lcg >> 33);
    return lo + (int)(r % (unsigned)(hi - lo + 1));
}

int main(int argc, char** argv) {
    if (argc != 3) { fprintf(stderr, "usage: gennet k out\n"); return 2; }
    int k = atoi(argv[1]);
    lcg += 1000003ULL * (k + 1);
    std::shared_ptr<NetData> np = NetData::create();
    NetData& n = *np;
    memset((void*)&n, 0, sizeof(NetData));
    static const int val[5] = {9, 5, 3, 3, 1};
    const int n1 = NetData::n1;
    if (k == 0 || k == 1) {
        for (int kIdx = 0; kIdx < 32; kIdx++)
            for (int pt = 0; pt < 10; pt++)
                for (int sq = 0; sq < 64; sq++) {
                    int row = (kIdx * 10 + pt) * 64 + sq;
                    int v = val[pt % 5] * 4;
                    n.weight1(row, 0) = pt < 5 ? v : -v;
                    // small positional term on neuron 1: advancement of own pawns / centralisation
                    int y = sq / 8, x = sq % 8;
                    int cen = 3 - std::max(std::abs(2 * x - 7), std::abs(2 * y - 7)) / 2;
                    int pst = (pt % 5 == 4) ? (pt < 5 ? y : 7 - y) : cen;
                    n.weight1(row, 1) = pt < 5 ? pst : -pst;
                    if (k == 1)
                        for (int j = 2; j < n1; j++)
                            n.weight1(row, j) = rnd(-8, 8);
                }
        n.bias1(0) = 256; n.bias1(1) = 256;
        if (k == 1) for (int j = 2; j < n1; j++) n.bias1(j) = rnd(0, 200);
        for (int h = 0; h < NetData::nHeads; h++) {
            NetData::Head& hd = n.head[h];
            if (k == 1) {
                for (int i = 0; i < NetData::n2; i++) for (int j = 0; j < 2 * n1; j++) hd.lin2.weight(i, j) = rnd(-2, 2);
                for (int i = 0; i < NetData::n3; i++) for (int j = 0; j < NetData::n2; j++) hd.lin3.weight(i, j) = rnd(-2, 2);
                for (int j = 0; j < NetData::n3; j++) hd.lin4.weight(0, j) = rnd(-2, 2);
                for (int i = 0; i < NetData::n2; i++) hd.lin2.bias(i) = rnd(-100, 100);
                for (int i = 0; i < NetData::n3; i++) hd.lin3.bias(i) = rnd(-100, 100);
                hd.lin4.bias(0) = rnd(-50, 50);
            }
            for (int i = 0; i < 32; i++) {
                int sgn = i < 16 ? 1 : -1;
                hd.lin2.weight(i, 0) = 64 * sgn;       // side to move perspective, material neuron
                hd.lin2.weight(i, n1) = -64 * sgn;     // other perspective
                hd.lin2.weight(i, 1) = 8 * sgn;
                hd.lin2.weight(i, n1 + 1) = -8 * sgn;
                hd.lin3.weight(i, i) = 64;
                hd.lin4.weight(0, i) = 127 * sgn;
            }
        }
    } else {
        for (size_t i = 0; i < COUNT_OF(n.weight1.data); i++) n.weight1.data[i] = rnd(-1000, 1000);
        for (int j = 0; j < n1; j++) n.bias1(j) = rnd(-2000, 2000);
        for (int h = 0; h < NetData::nHeads; h++) {
            NetData::Head& hd = n.head[h];
            for (size_t i = 0; i < COUNT_OF(hd.lin2.weight.data); i++) hd.lin2.weight.data[i] = rnd(-127, 127);
            for (size_t i = 0; i < COUNT_OF(hd.lin3.weight.data); i++) hd.lin3.weight.data[i] = rnd(-127, 127);
            for (size_t i = 0; i < COUNT_OF(hd.lin4.weight.data); i++) hd.lin4.weight.data[i] = rnd(-127, 127);
            for (int i = 0; i < NetData::n2; i++) hd.lin2.bias(i) = rnd(-100000, 100000);
            for (int i = 0; i < NetData::n3; i++) hd.lin3.bias(i) = rnd(-10000, 10000);
            hd.lin4.bias(0) = rnd(-3000, 3000);
        }
    }
    std::stringstream ss;
    n.save(ss);
    std::string raw = ss.str();
    size_t outLen = raw.size() + raw.size() / 2 + 4096;
    std::vector<unsigned char> out(outLen);
    int res = Lzma86_Encode(out.data(), &outLen, (const Byte*)raw.data(), raw.size(), 1, 1 << 20, SZ_FILTER_NO);
    if (res != SZ_OK) { fprintf(stderr, "lzma encode failed %d\n", res); return 2; }
    std::ofstream of(argv[2], std::ios::binary);
    of.write((const char*)out.data(), outLen);
    of.close();
    fprintf(stderr, "net%d raw=%zu compressed=%zu\n", k, raw.size(), outLen);
    return of ? 0 : 2;
}

// C02: position state survives any make/unmake history intact.
// Depth-first enumeration of ALL move sequences to depth d from seeds / universes on the real Position,
// in lock-step with the independent oracle; from-scratch recomputation of every incremental attribute in
// every node; bit-identical restoration after every unmake; FEN / compact-form round trips; null-move edits.
#include "harness/common.hpp"
#include "harness/bridge.hpp"
#include "oracle/universes.hpp"
#include "bitBoard.hpp"
#include "material.hpp"
#include "parameters.hpp"
#include "evaluate.hpp"
#include <unordered_map>

using namespace vh;

static Result R;
static Worker* W;
static std::vector<std::string> pathMoves;
static std::string rootFen;
static std::unordered_map<std::string, U64> transpo;   // oracle repetition key -> zobrist hash
static const size_t TRANSPO_CAP = 3000000;

static std::string curRep() {
    std::string ops;
    for (auto& m : pathMoves) { if (!ops.empty()) ops += ' '; ops += m; }
    return "{\"kind\":\"ops\",\"fen\":\"" + jsonEsc(rootFen) + "\",\"moves\":\"" + ops + "\"}";
}
static void fail(const std::string& sig, const std::string& detail) {
    std::string ops; for (auto& m : pathMoves) ops += " " + m;
    R.violation(sig, sig + " @ " + rootFen + " moves" + ops + " : " + detail, curRep());
}

/** Field-by-field comparison of PositionBase (no padding, no EMPTY bitboard slot). */
static std::string diffFields(const Position& a, const Position& b) {
    const PositionBase& x = (const PositionBase&)a; const PositionBase& y = (const PositionBase&)b;
    std::string d;
    if (x.wMtrl_ != y.wMtrl_) d += "wMtrl "; if (x.bMtrl_ != y.bMtrl_) d += "bMtrl ";
    if (x.wMtrlPawns_ != y.wMtrlPawns_) d += "wMtrlPawns "; if (x.bMtrlPawns_ != y.bMtrlPawns_) d += "bMtrlPawns ";
    for (int s = 0; s < 64; s++) if (x.squares[Square(s)] != y.squares[Square(s)]) { d += "squares "; break; }
    for (int p = 1; p < Piece::nPieceTypes; p++) if (x.pieceTypeBB_[p] != y.pieceTypeBB_[p]) { d += "pieceTypeBB[" + std::to_string(p) + "] "; }
    if (x.whiteBB_ != y.whiteBB_) d += "whiteBB "; if (x.blackBB_ != y.blackBB_) d += "blackBB ";
    if (x.whiteMove != y.whiteMove) d += "whiteMove "; if (x.halfMoveClock != y.halfMoveClock) d += "halfMoveClock ";
    if (x.fullMoveCounter != y.fullMoveCounter) d += "fullMoveCounter "; if (x.castleMask != y.castleMask) d += "castleMask ";
    if (x.epSquare != y.epSquare) d += "epSquare "; if (x.hashKey != y.hashKey) d += "hashKey ";
    if (x.pHashKey != y.pHashKey) d += "pHashKey "; if (x.matId() != y.matId()) d += "matId ";
    return d;
}

static void fromScratch(const Position& pos, const char* where) {
    const PositionBase& pb = (const PositionBase&)pos;
    Position c(pos);
    c.computeZobristHash();
    const PositionBase& cb = (const PositionBase&)c;
    if (cb.hashKey != pb.hashKey) fail("hashKey-incremental", where);
    if (cb.pHashKey != pb.pHashKey) fail("pHashKey-incremental", where);
    if (cb.matId() != pb.matId()) fail("matId-incremental", where);
    // material id from scratch by counts (independent of the incremental path and of computeZobristHash)
    MatId mid;
    int cnt[Piece::nPieceTypes] = {0};
    U64 bb[Piece::nPieceTypes] = {0}; U64 w = 0, b = 0;
    int wM = 0, bM = 0, wP = 0, bP = 0, wk = -1, bk = -1;
    for (int s = 0; s < 64; s++) {
        int p = pb.squares[Square(s)];
        cnt[p]++;
        if (p == Piece::EMPTY) continue;
        bb[p] |= 1ULL << s;
        if (Piece::isWhite(p)) { w |= 1ULL << s; wM += ::pieceValue[p]; if (p == Piece::WPAWN) wP += ::pieceValue[p]; }
        else { b |= 1ULL << s; bM += ::pieceValue[p]; if (p == Piece::BPAWN) bP += ::pieceValue[p]; }
        if (p == Piece::WKING) wk = s; if (p == Piece::BKING) bk = s;
    }
    for (int p = 1; p < Piece::nPieceTypes; p++) mid.addPieceCnt(p, cnt[p]);
    if (mid() != pb.matId()) fail("matId-fromscratch", where);
    for (int p = 1; p < Piece::nPieceTypes; p++) if (bb[p] != pb.pieceTypeBB_[p]) { fail("pieceTypeBB", where); break; }
    if (w != pb.whiteBB_ || b != pb.blackBB_) fail("colorBB", where);
    if (pos.occupiedBB() != (w | b)) fail("occupiedBB", where);
    if (wM - ::kV != pb.wMtrl_ || bM - ::kV != pb.bMtrl_) fail("mtrl", where);
    if (wP != pb.wMtrlPawns_ || bP != pb.bMtrlPawns_) fail("mtrlPawns", where);
    if (pos.wKingSq().asInt() != wk || pos.bKingSq().asInt() != bk) fail("kingSq", where);
    if (pos.getKingSq(true).asInt() != wk || pos.getKingSq(false).asInt() != bk) fail("getKingSq", where);
    if (pos.nPieces() != 64 - cnt[0]) fail("nPieces", where);
}

static long long nodeNo = 0;

static void nodeChecks(Position& pos, const orc::Board& b, bool afterMove) {
    R.count("states");
    nodeNo++;
    // observable state vs oracle
    if (!br::sameState(pos, b, false, true)) fail("state-vs-oracle", orc::toFEN(b) + " texel " + TextIO::toFEN(pos));
    // en-passant square rule of makeMove: set iff double push and an enemy pawn stands beside the pushed pawn
    {
        int te = pos.getEpSquare().isValid() ? pos.getEpSquare().asInt() : -1;
        int expect = -1;
        if (b.ep >= 0) {
            int psq = b.ep + (b.wtm ? -8 : 8); // pushed pawn
            int enemy = b.wtm ? orc::WP : orc::BP;
            for (int dx = -1; dx <= 1; dx += 2) { int x = orc::X(psq) + dx; if (x >= 0 && x < 8 && b.sq[orc::Y(psq)*8+x] == enemy) expect = b.ep; }
        }
        if (afterMove) { if (te != expect) fail(te >= 0 && expect < 0 ? "ep-set-without-capturer" : "ep-square-wrong", "texel ep " + std::to_string(te) + " expected " + std::to_string(expect)); }
        else if (te >= 0 && te != b.ep) fail("ep-square-wrong", "root");
    }
    fromScratch(pos, "node");
    // hash equality of rule-equal positions (FIDE key: placement, side, rights, legally possible ep capture)
    {
        std::string k = orc::repKey(b);
        U64 h = pos.zobristHash();
        // A node that carries an en-passant square whose capture is illegal is the known corner (judged just below against its own
        // normalised copy); it must neither be compared with its class nor become the class's reference hash - whichever of two
        // rule-equal nodes is reached first would otherwise decide how the other one is classified.
        bool epCorner = pos.getEpSquare().isValid() && !orc::legalEpAvailable(b);
        if (!epCorner) {
            auto it = transpo.find(k);
            if (it == transpo.end()) { if (transpo.size() < TRANSPO_CAP) transpo.emplace(k, h); }
            else {
                R.count("transpositions");
                if (it->second != h) fail("hash-differs-for-rule-equal-positions", orc::toFEN(b));
            }
        }
        // and versus the normalised position (what the FEN reader / game code would hold)
        if (pos.getEpSquare().isValid() && !orc::legalEpAvailable(b)) {
            R.count("ep_set_capture_illegal");
            Position n(pos); n.setEpSquare(Square(-1));
            if (n.zobristHash() == pos.zobristHash()) fail("ep-not-in-hash", "");
            fail("hash-differs:makeMove-ep-set-but-capture-illegal", "raw position after double push hashes unlike the rule-equal position without the right: " + orc::toFEN(b));
        }
    }
    // FEN round trip
    {
        std::string fen = TextIO::toFEN(pos);
        W->crumb("fen-roundtrip " + fen);
        try {
            Position q = TextIO::readFEN(fen);
            Position e(pos); TextIO::fixupEPSquare(e);
            std::string d = diffFields(q, e);
            if (!d.empty() || !(q == e)) fail("fen-roundtrip", fen + " fields: " + d);
        } catch (const ChessParseError& ex) { fail("fen-roundtrip-rejected", fen + " : " + ex.what()); }
    }
    // compact form round trip (8-bit half-move clock, 16-bit full-move counter: stated domain)
    if (pos.getHalfMoveClock() <= 255 && pos.getFullMoveCounter() <= 65535) {
        Position::SerializeData sd; pos.serialize(sd);
        Position q; q.deSerialize(sd);
        std::string d = diffFields(q, pos);
        if (!d.empty() || !(q == pos)) fail("serialize-roundtrip", d);
        // deserialising over a dirty object must give the same result
        Position q2 = TextIO::readFEN("r3k2r/p1ppqpb1/bn2pnp1/3PN3/1p2P3/2N2Q1p/PPPBBPPP/R3K2R w KQkq - 0 1");
        q2.deSerialize(sd);
        d = diffFields(q2, pos);
        if (!d.empty()) fail("serialize-roundtrip-dirty", d);
    }
    // null-move style edits as performed by the search
    {
        Position saved(pos);
        pos.setWhiteMove(!pos.isWhiteMove());
        Square ep = pos.getEpSquare();
        pos.setEpSquare(Square(-1));
        int hmc = pos.getHalfMoveClock();
        pos.setHalfMoveClock(0);
        fromScratch(pos, "null-move");
        pos.setEpSquare(ep);
        pos.setWhiteMove(!pos.isWhiteMove());
        pos.setHalfMoveClock(hmc);
        std::string d = diffFields(pos, saved);
        if (!d.empty()) fail("null-move-restore", d);
    }
}

static int maxDepth = 3;

static void dfs(Position& pos, const orc::Board& b, int depth, bool& cut) {
    if (depth == maxDepth) return;
    if ((nodeNo & 1023) == 0 && W->dl.hit()) { cut = true; return; }
    std::vector<orc::Mv> lm = orc::legalMoves(b);
    MoveList ml; MoveGen::pseudoLegalMoves(pos, ml); MoveGen::removeIllegal(pos, ml);
    if (br::codes(ml) != br::codes(lm)) { fail("legal-set(C01)", ""); }
    bool nt = false;
    for (const orc::Mv& m : lm) {
        Move tm = br::toTexel(m);
        Position saved(pos);
        UndoInfo ui;
        W->crumb(rootFen + " ... " + orc::uci(m));
        orc::Board nb = orc::apply(b, m);
        if (orc::isCapture(b, m) || m.promo || (orc::typeOf(b.sq[m.from]) == 1 && abs(m.to - m.from) == 2)) nt = true;
        U64 hAfter = pos.hashAfterMove(tm);
        pos.makeMove(tm, ui);
        R.count("transitions");
        pathMoves.push_back(orc::uci(m));
        // hashAfterMove is documented as approximate (ignores castling/ep/promotion); check it where exact
        if (!m.promo && pos.getCastleMask() == saved.getCastleMask() && !pos.getEpSquare().isValid() && !saved.getEpSquare().isValid()
            && !(orc::typeOf(b.sq[m.from]) == 6 && m.to == b.ep) && !(orc::typeOf(b.sq[m.from]) == 1 && abs(m.to - m.from) == 2))
            if (hAfter != pos.zobristHash()) fail("hashAfterMove", "");
        nodeChecks(pos, nb, true);
        dfs(pos, nb, depth + 1, cut);
        pathMoves.pop_back();
        pos.unMakeMove(tm, ui);
        std::string d = diffFields(pos, saved);
        if (!d.empty()) fail("unmake-not-identical", orc::uci(m) + " fields: " + d);
        if (!(pos == saved)) fail("unmake-operator==", orc::uci(m));
        if (cut) return;
    }
    if (nt) R.count("nontrivial");
    int nq = b.count(orc::WQ), nbq = b.count(orc::BQ);
    R.maxOf("max_queens_one_side", std::max(nq, nbq));
}

static void runRoot(const orc::Board& b, bool& cut) {
    rootFen = orc::toFEN(b);
    W->crumb(rootFen);
    Position pos;
    try { pos = TextIO::readFEN(rootFen); } catch (const ChessParseError&) { R.count("root_rejected"); return; }
    orc::Board nb = br::fromTexel(pos); // normalised ep
    pathMoves.clear();
    nodeChecks(pos, nb, false);
    dfs(pos, nb, 0, cut);
}

// ---- material vectors -------------------------------------------------------------------
static void matid() {
    // per side: q,r,b,n,p with p<=8 and promoted pieces <= 8-p
    struct V { int c[5]; };
    std::vector<V> side;
    for (int p = 0; p <= 8; p++) for (int q = 0; q <= 9; q++) for (int r = 0; r <= 10; r++) for (int b = 0; b <= 10; b++) for (int n = 0; n <= 10; n++) {
        int promoted = std::max(0, q - 1) + std::max(0, r - 2) + std::max(0, b - 2) + std::max(0, n - 2);
        if (promoted <= 8 - p) side.push_back(V{{q, r, b, n, p}});
    }
    static const int wt[5] = {Piece::WQUEEN, Piece::WROOK, Piece::WBISHOP, Piece::WKNIGHT, Piece::WPAWN};
    static const int bt[5] = {Piece::BQUEEN, Piece::BROOK, Piece::BBISHOP, Piece::BKNIGHT, Piece::BPAWN};
    R.count("material_vectors_per_side", (long long)side.size());
    std::set<int> seenW, seenB;
    unsigned long long id = 0;
    long stride = W->args.getInt("stride", 1);
    for (size_t i = 0; i < side.size(); i++) {
        for (size_t j = 0; j < side.size(); j += (size_t)stride) {
            if (!W->mine(id++)) continue;
            MatId a, c;
            for (int k = 0; k < 5; k++) { a.addPieceCnt(wt[k], side[i].c[k]); a.addPieceCnt(bt[k], side[j].c[k]); }
            // one by one in another order, with a removal in between
            for (int k = 4; k >= 0; k--) { for (int n = 0; n < side[j].c[k]; n++) c.addPiece(bt[k]); for (int n = 0; n < side[i].c[k]; n++) c.addPiece(wt[k]); }
            c.addPiece(Piece::BQUEEN); c.removePiece(Piece::BQUEEN);
            R.count("states"); R.count("transitions");
            if (side[i].c[0] >= 6 || side[j].c[0] >= 6) R.count("nontrivial");
            if (a() != c()) R.violation("matId-order-dependent", "", "{}");
            unsigned ua = (unsigned)a();
            if (MatId::mirror(a()) != (int)((ua >> 16) | (ua << 16))) R.violation("matId-mirror", "", "{}");
            if (j == 0) seenW.insert(a());
        }
    }
    (void)seenB;
}

int main(int argc, char** argv) {
    Worker w(argc, argv); W = &w;
    br::initTexel();
    std::string part = w.args.get("part", "tree");
    R.part = part;
    maxDepth = (int)w.args.getInt("depth", 3);
    uni::Part P{w.idx, w.n};
    bool cut = false;
    if (w.args.has("replay")) {
        std::string txt = readFile(w.args.get("replay"));
        orc::Board b; if (!orc::fromFEN(jsonGetStr(txt, "fen"), b)) return 2;
        std::string mv = jsonGetStr(txt, "moves");
        rootFen = orc::toFEN(b);
        Position pos = TextIO::readFEN(rootFen);
        b = br::fromTexel(pos);
        nodeChecks(pos, b, false);
        std::istringstream is(mv); std::string m;
        std::vector<std::pair<Move, UndoInfo>> st; std::vector<Position> saved;
        while (is >> m) {
            bool found = false;
            for (auto& om : orc::legalMoves(b)) if (orc::uci(om) == m) {
                saved.push_back(pos); UndoInfo ui; Move tm = br::toTexel(om); pos.makeMove(tm, ui); st.push_back({tm, ui});
                b = orc::apply(b, om); pathMoves.push_back(m); nodeChecks(pos, b, true); found = true; break;
            }
            if (!found) { fprintf(stderr, "replay: illegal move %s\n", m.c_str()); return 2; }
        }
        while (!st.empty()) {
            pos.unMakeMove(st.back().first, st.back().second);
            std::string d = diffFields(pos, saved.back());
            if (!d.empty()) fail("unmake-not-identical", d);
            st.pop_back(); saved.pop_back(); pathMoves.pop_back();
        }
        w.finish(R); return 0;
    }
    if (part == "matid") matid();
    else if (part == "tree") {
        // split: (seed, first move) pairs are distributed round-robin; each worker walks its subtrees completely
        auto seeds = uni::readSeeds(w.args.get("seeds", "corpus/seeds.fen"));
        unsigned long long id = 0;
        for (auto& s : seeds) {
            std::string sfen = orc::toFEN(s);
            Position rp = TextIO::readFEN(sfen);
            orc::Board sb = br::fromTexel(rp);
            if (w.mine(id++)) { rootFen = sfen; pathMoves.clear(); nodeChecks(rp, sb, false); }
            for (auto& m : orc::legalMoves(sb)) {
                if (!w.mine(id++)) continue;
                rootFen = sfen; pathMoves.clear();
                Position pos(rp); UndoInfo ui; Move tm = br::toTexel(m);
                Position saved(pos);
                pos.makeMove(tm, ui); R.count("transitions");
                pathMoves.push_back(orc::uci(m));
                orc::Board nb = orc::apply(sb, m);
                nodeChecks(pos, nb, true);
                int md = maxDepth; maxDepth = md - 1;
                dfs(pos, nb, 0, cut);
                maxDepth = md;
                pathMoves.pop_back();
                pos.unMakeMove(tm, ui);
                if (!diffFields(pos, saved).empty()) fail("unmake-not-identical", orc::uci(m));
                if (cut) break;
            }
            if (cut) break;
        }
    }
    else if (part == "u3") uni::U3((int)w.args.getInt("wk", 0), P, [&](const orc::Board& b, unsigned long long) { if (!cut) runRoot(b, cut); });
    else if (part == "uep") uni::UEP(P, [&](const orc::Board& b, unsigned long long) { if (!cut) runRoot(b, cut); }, (int)w.args.getInt("sliders", 7));
    else if (part == "ucastle") uni::UCASTLE(P, [&](const orc::Board& b, unsigned long long) { if (!cut) runRoot(b, cut); }, w.args.getInt("blockers", 0) != 0);
    else if (part == "ukraid") uni::UKRAID(P, [&](const orc::Board& b, unsigned long long) { if (!cut) runRoot(b, cut); });
    else return 2;
    if (cut) R.exhaustive = false;
    w.finish(R);
    return 0;
}

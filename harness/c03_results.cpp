// C03: every search result is a legal, well-formed answer in any configuration.
// (a) sessions: real UCI stack in a forked child per script; product of positions x option lattice x go variants, plus ordered
//     pairs of go variants (controller state survives a search); transcript judged by the contract + result checker.
// (b) direct: volume through Search::iterativeDeepening on small universes x configuration list.
#include "harness/common.hpp"
#include "harness/session.hpp"
#include "harness/searchdrv.hpp"
#include "oracle/universes.hpp"

using namespace vh;
static Result R;
static Worker* W;

static std::string scriptStr(const std::vector<std::string>& s) { std::string o; for (auto& l : s) { if (!o.empty()) o += " | "; o += l; } return o; }
static std::string scriptJson(const std::vector<std::string>& s) {
    std::string o = "{\"kind\":\"ops\",\"script\":\"" + jsonEsc(scriptStr(s)) + "\"}"; return o;
}

static unsigned long long sessionId = 0;
static void runOne(const std::vector<std::string>& script, const std::string& family) {
    unsigned long long id = sessionId++;
    if (!W->mine(id)) return;
    if (W->dl.hit()) { R.exhaustive = false; return; }
    W->crumb(scriptStr(script));
    ses::Transcript t = ses::runSession(script, 60);
    ses::Analysis a = ses::analyse(t, true);
    R.count("states");
    long long infos = 0; bool pvSeen = false;
    for (auto& g : a.gos) { infos += (long long)g.infos.size(); for (auto& il : g.infos) if (!il.pv.empty()) pvSeen = true; R.outcome(family + ":" + (g.best == "0000" ? "0000" : "move") + (g.ponder.empty() ? "" : "+ponder")); }
    R.count("transitions", infos + (long long)a.gos.size());
    if (pvSeen) R.count("nontrivial");
    R.count("searches", (long long)a.gos.size());
    for (auto& f : a.findings) R.violation(f.sig, family + " [" + scriptStr(script) + "] " + f.detail.substr(0, 700), scriptJson(script));
    if (R.samples.size() < 3 && pvSeen && (id % 97) == 3) R.sampleStr(scriptStr(script));
}

static const std::vector<std::string> POS = {
    "startpos",
    "fen r3k2r/p1ppqpb1/bn2pnp1/3PN3/1p2P3/2N2Q1p/PPPBBPPP/R3K2R w KQkq - 0 1",
    "fen 7k/5Q2/6K1/8/8/8/8/8 b - - 0 1",                 // stalemate root
    "fen 7k/6Q1/6K1/8/8/8/8/8 b - - 0 1",                 // checkmate root
    "fen 7k/8/6KQ/8/8/8/8/8 b - - 0 1",                   // single legal move
    "fen 8/8/8/8/8/4k3/8/R3K3 w Q - 99 80",               // 1 ply from the 50-move limit
    "fen 4k3/P6P/8/8/8/8/p6p/4K3 w - - 0 1",              // promotions
    "fen 8/8/8/8/8/5k2/4p3/4K3 w - - 0 1",                // KPK, few moves
    "fen 6k1/5ppp/8/8/8/8/8/R3K3 w Q - 0 1",              // mate in one
    "startpos moves e2e4 e7e5 g1f3 b8c6 f1b5 a7a6",
};

static std::vector<std::string> firstLegal(const std::string& posCmd, int n) {
    ses::PosTracker pt; pt.onCommand("position " + posCmd);
    std::vector<std::string> v; for (auto& m : orc::legalMoves(pt.cur)) { if ((int)v.size() < n) v.push_back(orc::uci(m)); }
    return v;
}

static std::vector<std::string> goVariants(const std::string& posCmd, bool thorough) {
    std::vector<std::string> g = {"go depth 1", "go depth 3", "go nodes 1", "go nodes 500", "go mate 1", "go movetime 1", "go wtime 50 btime 50", "go depth 2 nodes 100000"};
    if (thorough) { g.push_back("go depth 5"); g.push_back("go mate 2"); g.push_back("go wtime 1 btime 1 winc 1 binc 1 movestogo 1"); g.push_back("go nodes 5000"); }
    auto fl = firstLegal(posCmd, 2);
    if (fl.size() >= 1) g.push_back("go depth 2 searchmoves " + fl[0]);
    if (fl.size() >= 2) g.push_back("go depth 2 searchmoves " + fl[0] + " " + fl[1]);
    if (fl.size() >= 2) g.push_back("go depth 2 searchmoves " + fl[1]);
    return g;
}

static const std::vector<std::vector<std::string>> OPTS1 = {
    {},
    {"setoption name MultiPV value 2"}, {"setoption name MultiPV value 4"}, {"setoption name MultiPV value 256"},
    {"setoption name Strength value 0"}, {"setoption name Strength value 100"}, {"setoption name Strength value 500"},
    {"setoption name UCI_LimitStrength value true", "setoption name UCI_Elo value -625"},
    {"setoption name UCI_LimitStrength value true", "setoption name UCI_Elo value 1500"},
    {"setoption name UCI_LimitStrength value true", "setoption name UCI_Elo value 2900"},
    {"setoption name UseNullMove value false"}, {"setoption name UCI_AnalyseMode value true"},
    {"setoption name Contempt value -200"}, {"setoption name Contempt value 200"},
    {"setoption name Hash value 1"}, {"setoption name MaxNPS value 1000"}, {"setoption name Threads value 2"},
    {"setoption name OwnBook value true"}, {"setoption name Ponder value true"},
};

static void sessions(bool thorough) {
    // (1) all single-option deviations x all positions x all go variants
    for (auto& pos : POS) for (auto& opt : OPTS1) for (auto& go : goVariants(pos, thorough)) {
        // OwnBook is not among the options the property quantifies over; it is kept for the legality clauses only. (Observation recorded
        // in DESIGN.md: with OwnBook=true a book move is played even when it is not among the requested searchmoves.)
        if (!opt.empty() && opt[0].find("OwnBook") != std::string::npos && go.find("searchmoves") != std::string::npos) continue;
        std::vector<std::string> s = opt;
        s.push_back("position " + pos); s.push_back(go); s.push_back("@await bestmove"); s.push_back("quit");
        runOne(s, "single");
    }
    // (2) all two-option deviations on a reduced option list x 4 positions x 3 go variants
    std::vector<int> red = {1, 3, 4, 5, 7, 10, 11, 14, 16};
    std::vector<std::string> gos2 = {"go depth 3", "go nodes 500", "go mate 1"};
    for (size_t pi = 0; pi < POS.size(); pi += (thorough ? 1 : 3)) for (size_t i = 0; i < red.size(); i++) for (size_t j = i + 1; j < red.size(); j++) for (auto& go : gos2) {
        std::vector<std::string> s = OPTS1[red[i]]; for (auto& x : OPTS1[red[j]]) s.push_back(x);
        s.push_back("position " + POS[pi]); s.push_back(go); s.push_back("@await bestmove"); s.push_back("quit");
        runOne(s, "pair-options");
    }
    // (3) histories: ordered pairs of go variants x {same position, another position}
    for (size_t pi = 0; pi < POS.size(); pi += (thorough ? 1 : 2)) {
        const std::string& p1 = POS[pi]; const std::string& p2 = POS[(pi + 1) % POS.size()];
        auto fl1 = firstLegal(p1, 2), fl2 = firstLegal(p2, 2);
        auto variants = [&](const std::vector<std::string>& fl) {
            std::vector<std::vector<std::string>> v = {
                {"go depth 2", "@await bestmove"}, {"go mate 1", "@await bestmove"},
                {"go infinite", "@sleep 20", "stop", "@await bestmove"},
                {"go ponder wtime 10000 btime 10000", "@sleep 10", "ponderhit", "@await bestmove"},
                {"go ponder wtime 10000 btime 10000", "@sleep 10", "stop", "@await bestmove"},
            };
            if (!fl.empty()) {
                v.push_back({"go depth 1 searchmoves " + fl[0], "@await bestmove"}); v.push_back({"go ponder wtime 10000 btime 10000 searchmoves " + fl.back(), "@sleep 10", "ponderhit", "@await bestmove"});
                // the move list in front of the other arguments (the order the UCI specification does not promise)
                v.push_back({"go searchmoves " + fl.back() + " depth 2", "@await bestmove"});
                v.push_back({"go searchmoves " + fl[0] + " ponder wtime 10000 btime 10000", "@sleep 10", "ponderhit", "@await bestmove"});
            }
            return v;
        };
        for (auto& a : variants(fl1)) for (int other = 0; other < 2; other++) for (auto& b : variants(other ? fl2 : fl1)) {
            std::vector<std::string> s = {"position " + p1};
            for (auto& x : a) s.push_back(x);
            s.push_back("position " + (other ? p2 : p1));
            for (auto& x : b) s.push_back(x);
            s.push_back("quit");
            runOne(s, "go-pairs");
        }
    }
    // (4) on-demand tablebase resident (go infinite on a 3/4-men pawnless root), then limited searches of the same material
    std::vector<std::string> tbRoots = {"fen 8/8/8/8/8/4k3/8/3QK3 w - - 0 1", "fen 8/8/8/8/8/4k3/8/3QK3 b - - 0 1", "fen 8/8/8/4k3/8/8/8/R3K3 w - - 0 1", "fen 8/8/8/3nk3/8/8/8/2BNK3 w - - 0 1"};
    for (auto& r : tbRoots) for (int mpv = 1; mpv <= 3; mpv += 2) {
        std::vector<std::string> s = {"setoption name MultiPV value " + std::to_string(mpv), "position " + r, "go infinite", "@sleep 120", "stop", "@await bestmove",
                                      "go depth 5", "@await bestmove", "go mate 3", "@await bestmove", "quit"};
        runOne(s, "tb-resident");
    }
}

// ---------------------------------------------------------------- direct volume
static void direct(bool thorough) {
    struct Cfg { const char* name; int depth; int mpv; int strength; int sm; long tt; };
    std::vector<Cfg> cfgs = { {"d2", 2, 1, 1000, 0, 512}, {"d3-mpv3", 3, 3, 1000, 0, 16384}, {"d3-str100", 3, 1, 100, 0, 512}, {"d2-str0-mpv2", 2, 2, 0, 0, 512}, {"d3-sm1", 3, 1, 1000, 1, 512}, {"d4", 4, 1, 1000, 0, 16384} };
    if (!thorough) cfgs.resize(5);
    long ncfg = W->args.getInt("ncfg", (long)cfgs.size()); if (ncfg < (long)cfgs.size()) cfgs.resize((size_t)ncfg);
    uni::Part P{W->idx, W->n};
    for (auto& c : cfgs) {
        sd::Env env((U64)c.tt);
        auto visit = [&](const orc::Board& b, unsigned long long) {
            std::vector<orc::Mv> lm = orc::legalMoves(b);
            if (lm.empty()) return;
            Position pos; try { pos = TextIO::readFEN(orc::toFEN(b)); } catch (const ChessParseError&) { return; }
            std::string fen = orc::toFEN(b);
            if ((R.counters["states"] & 255) == 0) W->crumb(std::string(c.name) + " " + fen);
            sd::Params p; p.maxDepth = c.depth; p.maxPV = c.mpv; p.strength = c.strength; p.randomSeed = 12345; p.minProbeDepth = 100;
            std::set<int> allowed = br::codes(lm);
            if (c.sm) { p.searchMoves.push_back(br::toTexel(lm[lm.size() / 2])); allowed = {lm[lm.size() / 2].code()}; }
            sd::Outcome o = sd::run(env, pos, p);
            R.count("states"); R.count("transitions", (long long)o.lines.size());
            if (!o.lines.empty()) R.count("nontrivial");
            auto rep = [&]() { return "{\"kind\":\"input\",\"cfg\":\"" + std::string(c.name) + "\",\"fen\":\"" + jsonEsc(fen) + "\"}"; };
            if (!allowed.count(br::code(o.best))) R.violation(o.best.isEmpty() ? "bestmove-0000-with-legal-moves" : "bestmove-illegal-or-outside-searchmoves", std::string(c.name) + " " + fen + " -> " + TextIO::moveToUCIString(o.best), rep());
            std::vector<std::pair<int,int>> group;
            auto closeGroup = [&]() { std::set<int> seen; int e = 0; for (auto& kv : group) { if (kv.first != e++) R.violation("multipv-indices-not-contiguous", fen, rep()); if (!seen.insert(kv.second).second) R.violation("multipv-duplicate-first-move", fen, rep()); } group.clear(); };
            for (auto& l : o.lines) {
                if (l.upper && l.lower) R.violation("both-bounds", fen, rep());
                if (l.isMate ? (l.score == 0 || abs(l.score) > 8000) : abs(l.score) >= 16000) R.violation("score-out-of-range", std::string(c.name) + " " + fen + " " + std::to_string(l.score), rep());
                orc::Board x = b; bool ok = true;
                for (auto& mv : l.pv) { orc::Mv m; bool f = false; for (auto& q : orc::legalMoves(x)) if (q.code() == br::code(mv)) { m = q; f = true; break; } if (!f) { ok = false; break; } x = orc::apply(x, m); }
                if (!ok || l.pv.empty()) R.violation("pv-not-playable", std::string(c.name) + " " + fen, rep());
                if (!l.pv.empty() && !allowed.count(br::code(l.pv[0]))) R.violation("pv-outside-searchmoves", std::string(c.name) + " " + fen, rep());
                if (l.multiPV >= 0 && !l.pv.empty()) { if (l.multiPV == 0) closeGroup(); group.push_back({l.multiPV, br::code(l.pv[0])}); }
            }
            closeGroup();
        };
        // K+P v K of either colour with the white king on files a-d (promotion, stalemate, single-move roots by the thousand)
        unsigned long long cnt = 0;
        for (int col = 0; col < 2; col++) uni::placeAll({orc::WK, orc::BK, orc::mk(col == 0, 6)}, 1, P, visit, cnt);
        if (thorough) { unsigned long long c2 = 0; uni::placeAll({orc::WK, orc::BK, orc::WQ}, 2, P, visit, c2); }
        if (W->dl.hit()) { R.exhaustive = false; break; }
    }
}

int main(int argc, char** argv) {
    Worker w(argc, argv); W = &w;
    ses::warm();
    std::string part = w.args.get("part", "sessions");
    R.part = part;
    bool thorough = w.args.get("tier", "quick") == "thorough";
    if (w.args.has("replay")) {
        std::string txt = readFile(w.args.get("replay"));
        std::string sc = jsonGetStr(txt, "script");
        if (!sc.empty()) {
            std::vector<std::string> s; size_t p = 0;
            while (true) { size_t q = sc.find(" | ", p); s.push_back(sc.substr(p, q == std::string::npos ? std::string::npos : q - p)); if (q == std::string::npos) break; p = q + 3; }
            w.n = 1; w.idx = 0; runOne(s, "replay");
        }
        w.finish(R); return 0;
    }
    if (part == "sessions") sessions(thorough);
    else if (part == "direct") direct(thorough);
    else return 2;
    R.count("evaluations", R.counters["states"]);
    w.finish(R);
    return 0;
}

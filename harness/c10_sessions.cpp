// C10 / C05(b) / C09: the real UCIProtocol + EngineControl + EngineMainThread + WorkerThread stack under the controlled scheduler.
// Every execution runs in a child forked from a warmed single-threaded parent; the explorer enumerates schedules with iterative
// delay bounding (every choice other than the default scheduler's costs 1) and judges every execution:
//   no deadlock / livelock (step horizon), transcript contract (exactly one bestmove per go, not before release for ponder/infinite,
//   readyok per isready, no info after bestmove), best move legal for the position of THAT go, exit status 0, no sanitizer report.
#include "harness/common.hpp"
#include "harness/session.hpp"
#include "sched/vsched.h"
#include "proofgamefilter.hpp"
#include "transpositionTable.hpp"

using namespace vh;
static Result R;
static Worker* W;

// Quiescent point inside the engine: the main search thread announces a new search to its helpers. Everything of the previous search
// must be over by now (C10: "every helper thread idle and acknowledged ... no helper still searching a previous position").
extern "C" void __real__ZN12Communicator14sendInitSearchERK8PositionRKSt6vectorImSaImEEibi(Communicator*, const Position&, const std::vector<U64>&, int, bool, int);
extern "C" void __wrap__ZN12Communicator14sendInitSearchERK8PositionRKSt6vectorImSaImEEibi(Communicator* self, const Position& pos, const std::vector<U64>& l, int n, bool clr, int wc) {
    if (ses::curUci && self == ses::curUci->engineThread.comm.get()) ses::probeEndState("search-start");
    __real__ZN12Communicator14sendInitSearchERK8PositionRKSt6vectorImSaImEEibi(self, pos, l, n, clr, wc);
}

struct Script { std::string name; std::vector<std::string> lines; };

static std::vector<Script> scripts(int threads) {
    std::string th = "setoption name Threads value " + std::to_string(threads);
    const std::string H1 = "setoption name Hash value 1";   // small table: cheaper child start-up
    // roots with 0-3 legal moves keep a whole session at a few hundred scheduling points
    const std::string W1 = "position fen 7k/8/6KQ/8/8/8/8/8 b - - 0 1";        // black: one legal move
    const std::string W2 = "position fen k7/8/KQ6/8/8/8/8/8 w - - 0 1";        // white to move (many moves) -> use small
    const std::string PW = "position fen 7k/5K2/8/6P1/8/8/8/8 w - - 0 1";      // white to move, 6 legal moves
    const std::string PB = "position fen 8/8/6p1/8/8/8/5k2/7K b - - 0 1";      // black to move
    const std::string ST = "position fen 7k/5Q2/6K1/8/8/8/8/8 b - - 0 1";      // stalemate root (no legal move)
    const std::string KQK = "position fen 8/8/8/8/8/1k6/8/K1Q5 w - - 0 1";
    return {
        {"S1-go-finish", {H1, th, "isready", "@await readyok", W1, "go depth 1", "@await bestmove", "quit"}},
        {"S2-infinite-stop", {H1, th, W1, "go infinite", "stop", "@await bestmove", "quit"}},
        {"S3-ponder-ponderhit", {H1, th, PW, "go ponder wtime 40 btime 40", "ponderhit", "@await bestmove", "quit"}},
        {"S4-ponder-stop", {H1, th, PW, "go ponder wtime 1000 btime 1000", "stop", "@await bestmove", "quit"}},
        {"S5-back-to-back", {H1, th, PW, "go depth 1", PB, "go depth 1", "@await bestmove", "quit"}},
        {"S6-threads-change", {H1, th, W1, "go depth 1", "@await bestmove", "setoption name Threads value 3", "go depth 1", "@await bestmove", "quit"}},
        {"S7-quit-during-search", {H1, th, PW, "go infinite", "quit"}},
        {"S8-options-during-search", {H1, th, W1, "go infinite", "setoption name Hash value 2", "isready", "@await readyok", "stop", "@await bestmove", "quit"}},
        {"S9-eof-during-search", {H1, th, PB, "go infinite", "@eof"}},
        {"S10-kqk-depth2", {H1, th, KQK, "go depth 2", "@await bestmove", "quit"}},
        {"S11-newgame-between", {H1, th, W1, "go depth 1", "@await bestmove", "ucinewgame", PB, "go depth 1", "@await bestmove", "quit"}},
        {"S12-no-legal-move", {H1, th, ST, "go depth 1 searchmoves h8g8", "@await bestmove", "go infinite", "stop", "@await bestmove", "quit"}},
        {"S14-options-between-then-clock-go", {H1, th, W1, "go depth 1", "@await bestmove", "setoption name Ponder value true", "setoption name BufferTime value 10", PW, "go wtime 60 btime 60", "@await bestmove", "quit"}},
        {"S15-options-during-then-clock-go", {H1, th, PW, "go infinite", "setoption name Ponder value true", "setoption name BufferTime value 10", "setoption name MultiPV value 2", "stop", "@await bestmove", PB, "go wtime 60 btime 60 winc 1 binc 1", "@await bestmove", "quit"}},
        // deeper searches in which the helper threads really search (used by the ThreadSanitizer parts; selected only by name)
        {"D1-depth5-startpos", {H1, th, "position startpos", "go depth 5", "@await bestmove", "quit"}},
        {"D2-multipv-depth4", {H1, th, "setoption name MultiPV value 3", "position fen 4k3/8/8/8/8/8/4P3/4K3 w - - 0 1", "go depth 4", "@await bestmove", "quit"}},
        {"D3-tablebase-infinite", {"setoption name Hash value 16", th, "position fen 8/8/8/3k4/8/8/8/KQ6 w - - 0 1", "go infinite", "@sleep 40", "stop", "@await bestmove", "quit"}},
        {"D4-nodes-limit", {H1, th, "position startpos", "go nodes 3000", "@await bestmove", "quit"}},
        {"D5-ponderhit-timed", {H1, th, "setoption name Ponder value true", "position startpos", "go ponder wtime 300 btime 300", "@sleep 5", "ponderhit", "@await bestmove", "quit"}},
        {"D6-clearhash-newgame-between", {H1, th, "position startpos", "go depth 3", "@await bestmove", "setoption name Clear Hash", "ucinewgame", "position startpos moves d2d4", "go depth 3", "@await bestmove", "quit"}},
        {"D7-threads-change-between", {H1, th, "position startpos", "go depth 3", "@await bestmove", "setoption name Threads value 3", "position startpos moves d2d4 d7d5", "go depth 3", "@await bestmove", "quit"}},
        {"D8-stop-mid-search", {H1, th, "position startpos", "go depth 30", "@sleep 30", "stop", "@await bestmove", "quit"}},
        // the worker tree changes shape when the thread count crosses 6 (helpers get helpers of their own): slots are replaced, not only appended
        {"S16-threads-8-to-6", {H1, "setoption name Threads value 8", W1, "go depth 1", "@await bestmove", "setoption name Threads value 6", PW, "go depth 1", "@await bestmove", "quit"}},
        {"S17-threads-2-to-7", {H1, "setoption name Threads value 2", PW, "go depth 1", "@await bestmove", "setoption name Threads value 7", PB, "go depth 2", "@await bestmove", "quit"}},
        {"S18-ponder-movetime-ponderhit", {H1, th, PW, "go ponder movetime 60", "ponderhit", "@await bestmove", "quit"}},
        // six threads: helper 1 gets a helper of its own, so stop acknowledgements are forwarded through an inner node of the worker tree
        {"S19-threads6-stop-then-go", {H1, "setoption name Threads value 6", W1, "go infinite", "stop", "@await bestmove", PB, "go depth 1", "@await bestmove", "quit"}},
        {"S13-stop-after-finished", {H1, th, W1, "go depth 1", "@await bestmove", "stop", "isready", "@await readyok", PB, "go depth 1", "@await bestmove", "quit"}},
    };
}

struct Exec { ses::Transcript t; VsTrace* tr; };

static VsTrace* sharedTrace = nullptr;
static long long TICK = 100, HORIZON = 400000;
static bool TSAN = false;
static bool FREE = false;     // free-running complement: threads are not scheduled (sampling, reported separately)
static std::function<void()> childBody;   // alternative child body (worker-pool scenarios)

/** One execution of `script` following the schedule prefix `choices`. */
static ses::Transcript runScheduledOnce(const std::vector<std::string>& script, const std::vector<int>& choices, int timeoutS);
/** Executions are deterministic, so a wall-clock limit can only be hit because the machine is slow (or the token holder is blocked outside
 *  the scheduler): re-run alone with a ten times longer limit before believing it. */
static ses::Transcript runScheduled(const std::vector<std::string>& script, const std::vector<int>& choices, int timeoutS = 120) {
    ses::Transcript t = runScheduledOnce(script, choices, timeoutS);
    if (t.timedOut) { R.count("reruns_after_wall_clock_limit"); t = runScheduledOnce(script, choices, timeoutS * 10); }
    return t;
}
static ses::Transcript runScheduledOnce(const std::vector<std::string>& script, const std::vector<int>& choices, int timeoutS) {
    ses::Transcript t;
    int pfd[2], efd[2];
    if (pipe(pfd) != 0 || pipe(efd) != 0) { t.exitStatus = -1; return t; }
    memset(sharedTrace, 0, sizeof(int) * 8);
    sharedTrace->result = -1;
    fflush(nullptr);
    pid_t pid = fork();
    if (pid == 0) {
        close(pfd[0]); close(efd[0]);
        dup2(efd[1], 2);
        int devnull = open("/dev/null", O_WRONLY); if (devnull >= 0) dup2(devnull, 1);
        if (!FREE) vs_begin(choices.data(), (int)choices.size(), sharedTrace, TICK, HORIZON);
        if (childBody) { alarm((unsigned)timeoutS); childBody(); alarm(0); }
        else ses::runScriptInChild(script, pfd[1], timeoutS);
        if (!FREE) vs_end(); else { sharedTrace->result = VS_OK; sharedTrace->nPoints = 1; }
        _exit(0);
    }
    close(pfd[1]); close(efd[1]);
    std::string buf, ebuf;
    struct pollfd fds[2] = {{pfd[0], POLLIN, 0}, {efd[0], POLLIN, 0}};
    int open_ = 2; char tmp[65536];
    while (open_ > 0) {
        int pr = poll(fds, 2, 1000);
        if (pr < 0) break;
        for (int i = 0; i < 2; i++) {
            if (fds[i].fd < 0) continue;
            if (fds[i].revents & (POLLIN | POLLHUP | POLLERR)) {
                ssize_t n = read(fds[i].fd, tmp, sizeof tmp);
                if (n > 0) { (i == 0 ? buf : ebuf).append(tmp, (size_t)n); if (ebuf.size() > 200000) ebuf.erase(0, ebuf.size() - 100000); }
                else { close(fds[i].fd); fds[i].fd = -1; open_--; }
            }
        }
    }
    int st = 0; waitpid(pid, &st, 0);
    if (WIFEXITED(st)) t.exitStatus = WEXITSTATUS(st);
    else if (WIFSIGNALED(st)) { t.signalled = true; t.sig = WTERMSIG(st); if (t.sig == SIGALRM) t.timedOut = true; }
    std::istringstream is(buf); std::string l;
    while (std::getline(is, l)) t.lines.push_back(l);
    { size_t wpos = ebuf.find("WARNING: ThreadSanitizer"); if (wpos != std::string::npos) t.stderrTail = ebuf.substr(wpos, 6000); else t.stderrTail = ebuf.size() > 4000 ? ebuf.substr(ebuf.size() - 4000) : ebuf; }
    return t;
}

static std::string choicesStr(const std::vector<int>& c) { std::string s; for (size_t i = 0; i < c.size(); i++) if (c[i]) { if (!s.empty()) s += ','; s += std::to_string(i) + ":" + std::to_string(c[i]); } s += (s.empty() ? "" : ",") + std::string("len:") + std::to_string(c.size()); return s; }
static std::vector<int> parseChoices(const std::string& s) {
    std::vector<int> v; std::istringstream is(s); std::string t;
    while (std::getline(is, t, ',')) { size_t c = t.find(':'); if (c == std::string::npos) continue; if (t.substr(0, c) == "len") { v.resize((size_t)atoi(t.c_str() + c + 1), 0); continue; }
        size_t i = (size_t)atoi(t.c_str()); if (v.size() <= i) v.resize(i + 1, 0); v[i] = atoi(t.c_str() + c + 1); }
    return v;
}

static std::set<unsigned long long> seenFingerprints;

/** Judge one execution. Returns false if the execution itself is unusable (harness error). */
static bool judge(const Script& sc, int threads, const std::vector<int>& choices, const ses::Transcript& t) {
    std::string ctx = sc.name + " threads=" + std::to_string(threads) + " schedule=[" + choicesStr(choices) + "]";
    std::string rep = "{\"kind\":\"schedule\",\"script\":\"" + sc.name + "\",\"threads\":" + std::to_string(threads) + ",\"choices\":\"" + choicesStr(choices) + "\"}";
    R.count("schedules"); R.count("transitions", sharedTrace->nPoints);
    R.maxOf("max_points", sharedTrace->nPoints);
    if (seenFingerprints.insert(sharedTrace->fingerprint).second) R.count("states");
    bool deviates = false; for (int c : choices) if (c) deviates = true;
    if (deviates) R.count("nontrivial");
    if (sharedTrace->result == VS_DIVERGED) { R.violation("harness:replay-diverged", ctx + " " + sharedTrace->message, rep); return false; }
    if (sharedTrace->result == VS_DEADLOCK) { R.violation("deadlock", ctx + " : " + sharedTrace->message, rep); return true; }
    if (sharedTrace->result == VS_HORIZON) { R.violation("livelock-or-horizon", ctx + " : " + sharedTrace->message, rep); return true; }
    if (t.timedOut) { R.violation("harness:wall-clock-timeout", ctx + " (token holder blocked outside the scheduler?) " + t.stderrTail.substr(0, 300), rep); return false; }
    if (TSAN && (t.exitStatus == 66 || t.stderrTail.find("ThreadSanitizer") != std::string::npos)) {
        std::string r = t.stderrTail; size_t p = r.find("WARNING: ThreadSanitizer"); if (p != std::string::npos) r = r.substr(p);
        // signature: the innermost non-runtime frames of the two conflicting accesses
        std::string sig = "data-race";
        size_t pos = 0; int found = 0;
        while (found < 2 && (pos = r.find(" #0 ", pos)) != std::string::npos) {
            // walk the frames of this stack until one is not inside the sanitizer runtime / libstdc++ internals
            size_t p = pos; std::string fn;
            for (int k = 0; k < 6; k++) {
                size_t e = r.find('\n', p); if (e == std::string::npos) break;
                std::string fr = r.substr(p, e - p);
                size_t sp = fr.find(' ', 4); std::string name = sp == std::string::npos ? fr : fr.substr(sp + 1);
                size_t par = name.find('('); if (par != std::string::npos) name = name.substr(0, par);
                size_t sl = name.find(" /"); if (sl != std::string::npos) name = name.substr(0, sl);
                if (fr.find("libsanitizer") == std::string::npos && fr.find("/c++/") == std::string::npos && !name.empty()) { fn = name; break; }
                p = e + 1;
            }
            if (!fn.empty()) { sig += ":" + fn.substr(0, 70); found++; }
            pos += 4;
            size_t nextBlock = r.find("\n\n", pos); if (nextBlock == std::string::npos) break; pos = nextBlock;
        }
        R.violation(sig, ctx + " : " + r.substr(0, 1500), rep);
        return true;
    }
    ses::Analysis a = ses::analyse(t, true);
    R.count("end_state_probes", a.endStateProbes);
    for (auto& f : a.findings) R.violation(f.sig, ctx + " : " + f.detail.substr(0, 600), rep);
    for (auto& g : a.gos) R.outcome(sc.name + ":" + g.best);
    return true;
}

/** Iterative delay-bounded exploration of one script. */
static void explore(const Script& sc, int threads, int bound, unsigned long long& workId) {
    // default execution (also determinism check: run it twice)
    std::vector<int> none;
    ses::Transcript t0 = runScheduled(sc.lines, none);
    int n0 = sharedTrace->nPoints; unsigned long long fp0 = sharedTrace->fingerprint;
    std::vector<unsigned char> opts0(sharedTrace->nOptions, sharedTrace->nOptions + std::min(n0, VS_MAXPOINTS));
    if (W->idx == 0) {
        judge(sc, threads, none, t0);
        ses::Transcript t1 = runScheduled(sc.lines, none);
        if (sharedTrace->nPoints != n0 || sharedTrace->fingerprint != fp0)
            R.violation("harness:nondeterministic-replay", sc.name + " threads=" + std::to_string(threads) + ": the default schedule gave " + std::to_string(n0) + " then " + std::to_string(sharedTrace->nPoints) + " points", "{}");
        R.count("determinism_checks");
    }
    if (n0 >= VS_MAXPOINTS) { R.violation("harness:trace-too-long", sc.name, "{}"); return; }
    // work list of prefixes; each entry remembers how many deviations it used
    struct Item { std::vector<int> prefix; int cost; };
    std::vector<Item> work;
    // first level: alternatives of the default execution, dealt round-robin to the workers
    for (int i = 0; i < n0 && bound >= 1; i++) for (int alt = 1; alt < opts0[(size_t)i]; alt++) {
        if (!W->mine(workId++)) continue;
        std::vector<int> p(opts0.size() > (size_t)i ? (size_t)i : 0, 0); p.push_back(alt);
        work.push_back(Item{p, 1});
    }
    while (!work.empty()) {
        Item it = work.back(); work.pop_back();
        if (W->dl.hit()) { R.exhaustive = false; return; }
        W->crumb(sc.name + " threads=" + std::to_string(threads) + " [" + choicesStr(it.prefix) + "]");
        ses::Transcript t = runScheduled(sc.lines, it.prefix);
        if (!judge(sc, threads, it.prefix, t)) continue;
        int n = std::min(sharedTrace->nPoints, VS_MAXPOINTS);
        if (it.cost >= bound) continue;
        std::vector<unsigned char> opts(sharedTrace->nOptions, sharedTrace->nOptions + n);
        for (int i = (int)it.prefix.size(); i < n; i++) for (int alt = 1; alt < opts[(size_t)i]; alt++) {
            std::vector<int> p = it.prefix; p.resize((size_t)i, 0); p.push_back(alt);
            work.push_back(Item{p, it.cost + 1});
        }
    }
}

int main(int argc, char** argv) {
    Worker w(argc, argv); W = &w;
#if defined(__SANITIZE_THREAD__)
    TSAN = true;
#endif
    ses::warm();
    UciParams::hash->set("1");   // children construct a 1 MB table instead of clearing 16 MB at every start-up
    sharedTrace = (VsTrace*)mmap(nullptr, sizeof(VsTrace), PROT_READ | PROT_WRITE, MAP_SHARED | MAP_ANONYMOUS, -1, 0);
    R.part = w.args.get("part", "explore");
    TICK = w.args.getInt("tick", 100);
    int bound = (int)w.args.getInt("bound", 1);
    std::vector<int> thr; { std::istringstream is(w.args.get("threads", "1,2")); std::string t; while (std::getline(is, t, ',')) thr.push_back(atoi(t.c_str())); }
    std::string only = w.args.get("scripts", "");
    if (w.args.has("replay")) {
        std::string txt = readFile(w.args.get("replay"));
        std::string name = jsonGetStr(txt, "script"); int threads = (int)jsonGetInt(txt, "threads", 2);
        std::vector<int> ch = parseChoices(jsonGetStr(txt, "choices"));
        for (auto& sc : scripts(threads)) if (sc.name == name) {
            ses::Transcript t = runScheduled(sc.lines, ch);
            judge(sc, threads, ch, t);
            for (auto& l : t.lines) fprintf(stderr, "%s\n", l.c_str());
            fprintf(stderr, "points=%d result=%d %s\n", sharedTrace->nPoints, sharedTrace->result, sharedTrace->message);
        }
        w.finish(R); return 0;
    }
    if (w.args.has("dump")) {
        // debugging aid: run the default schedule of one script twice and print the (thread, op, options) sequences
        for (int th : thr) for (auto& sc : scripts(th)) {
            if (only.empty() ? (sc.name[0] == 'D' || sc.name == "S16-threads-8-to-6" || sc.name == "S17-threads-2-to-7" || sc.name == "S19-threads6-stop-then-go") : (";" + only + ";").find(";" + sc.name.substr(0, sc.name.find('-')) + ";") == std::string::npos) continue;
            for (int k = 0; k < 2; k++) {
                ses::Transcript t = runScheduled(sc.lines, parseChoices(w.args.get("choices", "")));
                std::string f = w.args.get("dump") + "." + std::to_string(k);
                FILE* fp = fopen(f.c_str(), "w");
                for (int i = 0; i < std::min(sharedTrace->nPoints, VS_MAXPOINTS); i++) fprintf(fp, "%d T%d op%d n%d\n", i, sharedTrace->thread[i], sharedTrace->op[i], sharedTrace->nOptions[i]);
                for (auto& l : t.lines) fprintf(fp, "# %s\n", l.c_str());
                fprintf(fp, "# result %d %s stderr %s\n", sharedTrace->result, sharedTrace->message, t.stderrTail.c_str());
                fclose(fp);
            }
        }
        return 0;
    }
    if (R.part == "free") {
        // free-running complement (no scheduler): the same session bodies with more threads, a fixed number of repetitions
        FREE = true;
        int reps = (int)w.args.getInt("reps", 2); unsigned long long id = 0;
        for (int th : thr) for (auto& sc : scripts(th)) {
            if (only.empty() ? (sc.name[0] == 'D' || sc.name == "S16-threads-8-to-6" || sc.name == "S17-threads-2-to-7" || sc.name == "S19-threads6-stop-then-go") : (";" + only + ";").find(";" + sc.name.substr(0, sc.name.find('-')) + ";") == std::string::npos) continue;
            for (int r = 0; r < reps; r++) { if (!w.mine(id++)) continue; W->crumb("free " + sc.name); ses::Transcript t = runScheduled(sc.lines, {}, 120); sharedTrace->fingerprint = id; judge(sc, th, {}, t); }
        }
        R.count("evaluations", R.counters["schedules"]); w.finish(R); return 0;
    }
    if (R.part == "pool") {
        // worker-pool scenarios of the utility code: proof-game filter with 3 workers, hash table clear with its 4-thread pool
        std::vector<std::pair<std::string, std::function<void()>>> bodies = {
            {"pgfilter-3-workers", []() {
                std::stringstream a, b; std::streambuf* oc = std::cout.rdbuf(a.rdbuf()); std::streambuf* ol = std::clog.rdbuf(b.rdbuf());
                std::istringstream is("rnbqkbnr/pppp1ppp/8/4p3/4P3/8/PPPP1PPP/RNBQKBNR w KQkq - 0 2\nrnbqkb1r/pppppppp/5n2/8/8/5N2/PPPPPPPP/RNBQKB1R w KQkq - 2 2\nrnbqkbnr/ppp1pppp/8/3p4/3P4/8/PPP1PPPP/RNBQKBNR w KQkq - 0 2\n");
                std::ostringstream os; ProofGameFilter pgf(3, 0, false); pgf.filterFens(is, os, false);
                std::cout.rdbuf(oc); std::clog.rdbuf(ol); }},
            {"tt-clear-pool", []() { TranspositionTable tt(2 * 1024 * 1024); Move m(Square(1), Square(2), 0); tt.insert(12345, m, TType::T_EXACT, 0, 1, 0); tt.clear(); TranspositionTable::TTEntry e; tt.probe(12345, e); if (e.getType() != TType::T_EMPTY) abort(); }},
        };
        unsigned long long id = 0;
        for (int mode = 0; mode < 2; mode++) for (auto& bd : bodies) {
            if (!w.mine(id++)) continue;
            FREE = mode == 1; childBody = bd.second;
            Script sc{bd.first + (FREE ? "-free" : "-scheduled"), {}};
            W->crumb(sc.name);
            ses::Transcript t = runScheduled({}, {}, 300);
            if (FREE) sharedTrace->fingerprint = id;
            judge(sc, 0, {}, t);
            if (!FREE && bound >= 1) {
                int n = std::min(sharedTrace->nPoints, VS_MAXPOINTS); std::vector<unsigned char> opts(sharedTrace->nOptions, sharedTrace->nOptions + n);
                long cap = w.args.getInt("poolcap", 60), done = 0;
                for (int i = 0; i < n && done < cap; i++) for (int alt = 1; alt < opts[(size_t)i] && done < cap; alt++) { std::vector<int> p((size_t)i, 0); p.push_back(alt); ses::Transcript t2 = runScheduled({}, p, 300); judge(sc, 0, p, t2); done++; }
                if (done >= cap) R.count("pool_alternatives_capped");
            }
        }
        childBody = nullptr; FREE = false;
        R.count("evaluations", R.counters["schedules"]); w.finish(R); return 0;
    }
    unsigned long long workId = 0;
    for (int th : thr) for (auto& sc : scripts(th)) {
        if (only.empty() ? (sc.name[0] == 'D' || sc.name == "S16-threads-8-to-6" || sc.name == "S17-threads-2-to-7" || sc.name == "S19-threads6-stop-then-go") : (";" + only + ";").find(";" + sc.name.substr(0, sc.name.find('-')) + ";") == std::string::npos) continue;
        explore(sc, th, bound, workId);
        if (!R.exhaustive) break;
        if (R.samples.size() < 3) R.sampleStr(sc.name + " threads=" + std::to_string(th) + " points(default)=" + std::to_string(sharedTrace->nPoints));
    }
    R.count("evaluations", R.counters["schedules"]);
    w.finish(R);
    return 0;
}

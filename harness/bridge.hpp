// Bridge between the independent oracle (orc::Board) and texel's Position.
#pragma once
#include "oracle/chess.hpp"
#include "position.hpp"
#include "textio.hpp"
#include "moveGen.hpp"
#include "computerPlayer.hpp"
#include <set>

namespace br {

inline void initTexel() { ComputerPlayer::initEngine(); }

/** Oracle board from texel position (raw copy of the observable state). */
inline orc::Board fromTexel(const Position& p) {
    orc::Board b;
    for (int s = 0; s < 64; s++) b.sq[s] = (signed char)p.getPiece(Square(s));
    b.wtm = p.isWhiteMove();
    b.castle = p.getCastleMask();
    b.ep = p.getEpSquare().isValid() ? p.getEpSquare().asInt() : -1;
    b.hmc = p.getHalfMoveClock();
    b.fullMove = p.getFullMoveCounter();
    return b;
}

/** texel position through the engine's own FEN reader (fix-ups in the loop). Throws ChessParseError. */
inline Position toTexelViaFEN(const orc::Board& b) { return TextIO::readFEN(orc::toFEN(b)); }

inline Move toTexel(const orc::Mv& m) { return Move(Square(m.from), Square(m.to), m.promo); }
inline orc::Mv fromTexel(const Move& m) { return orc::Mv{m.from().asInt(), m.to().asInt(), m.promoteTo()}; }
inline int code(const Move& m) { return m.from().asInt() | (m.to().asInt() << 6) | (m.promoteTo() << 12); }

inline std::set<int> codes(const MoveList& ml) { std::set<int> s; for (int i = 0; i < ml.size; i++) s.insert(code(ml[i])); return s; }
inline std::set<int> codes(const std::vector<orc::Mv>& v) { std::set<int> s; for (auto& m : v) s.insert(m.code()); return s; }

inline std::string codeStr(int c) {
    if (c < 0) return "none";
    orc::Mv m{c & 63, (c >> 6) & 63, c >> 12};
    return orc::uci(m);
}
inline std::string setStr(const std::set<int>& s) { std::string r; for (int c : s) { if (!r.empty()) r += ' '; r += codeStr(c); } return r; }

/** Compare the observable state of a texel position with an oracle board (raw ep compare optional). */
inline bool sameState(const Position& p, const orc::Board& b, bool compareEp, bool compareCounters) {
    for (int s = 0; s < 64; s++) if (p.getPiece(Square(s)) != b.sq[s]) return false;
    if (p.isWhiteMove() != b.wtm) return false;
    if (p.getCastleMask() != b.castle) return false;
    if (compareEp) { int e = p.getEpSquare().isValid() ? p.getEpSquare().asInt() : -1; if (e != b.ep) return false; }
    if (compareCounters && (p.getHalfMoveClock() != b.hmc || p.getFullMoveCounter() != b.fullMove)) return false;
    return true;
}

} // namespace br

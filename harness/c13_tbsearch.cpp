// C13: with tablebase knowledge the engine reports exact results and keeps them.
// Every position (white king in the symmetry triangle) of the material class x both sides x a set of half-move clocks
// is searched without depth/node limit (the path that builds the on-demand table through updateTB); the reported score and
// the move played are compared with exact distance-to-mate from an independently generated vector-storage table
// (whose exactness is established by the C12 check).
#include "harness/common.hpp"
#include "harness/searchdrv.hpp"
#include "oracle/universes.hpp"
#include "tbgen.hpp"

#include <dlfcn.h>
using namespace vh;
static Result R;
static Worker* W;
static const int M0 = SearchConst::MATE0;

static PieceCount toPC(const std::vector<int>& pcs) {
    PieceCount pc{0,0,0,0,0,0,0,0};
    for (int p : pcs) switch (p) {
        case Piece::WQUEEN: pc.nwq++; break; case Piece::WROOK: pc.nwr++; break; case Piece::WBISHOP: pc.nwb++; break; case Piece::WKNIGHT: pc.nwn++; break;
        case Piece::BQUEEN: pc.nbq++; break; case Piece::BROOK: pc.nbr++; break; case Piece::BBISHOP: pc.nbb++; break; case Piece::BKNIGHT: pc.nbn++; break;
    }
    return pc;
}

// ---- clock seam (as in the C12 harness): the k-th clock query made while armed delivers a "stop" to the running search (what
// EngineControl::stopSearch does from the protocol thread: Search::timeLimit(0, 0)); the on-demand generator polls the clock while it builds.
static long long clockQueries = 0, faultAt = -1;
static bool armed = false, faultDelivered = false;
static Search* armedSearch = nullptr;
extern "C" int clock_gettime(clockid_t id, struct timespec* ts) {
    typedef int (*fn_t)(clockid_t, struct timespec*);
    static fn_t real = (fn_t)dlsym(RTLD_NEXT, "clock_gettime");
    int rc = real(id, ts);
    // the stop is delivered at the first query with index >= faultAt made while the Search object exists (queries made by its constructor come earlier)
    if (armed && id == CLOCK_MONOTONIC) { long long q = clockQueries++; if (faultAt >= 0 && q >= faultAt && armedSearch && !faultDelivered) { faultDelivered = true; armedSearch->timeLimit(0, 0); } }
    return rc;
}

struct Val { int kind; int n; };   // kind: +1 win in n moves, -1 loss in n moves, 0 draw
static Val toVal(int s) { if (s == 0) return {0, 0}; if (s > 0) return {1, (M0 - s) / 2}; return {-1, (M0 + s - 1) / 2}; }

static void checkRoot(sd::Env& env, TBGenerator<VectorStorage>& gen, Position& pos, bool is3men, const std::string& clsIn, int maxTimeMs = -1);
static unsigned long long rootNo = 0;
/** First the search without any limit (it builds the table if need be), then - for every 4th root - the same root again with a time budget too
 *  short to generate a table (< 3 s): the knowledge already resident must be kept ("... and keeps them"). */
static void checkRootTwice(sd::Env& env, TBGenerator<VectorStorage>& gen, Position& pos, bool is3men, const std::string& cls) {
    checkRoot(env, gen, pos, is3men, cls);
    if ((rootNo++ & 3) == 0) { checkRoot(env, gen, pos, is3men, cls + "+timed", 1500); R.count("timed_second_searches"); }
}
static void checkRoot(sd::Env& env, TBGenerator<VectorStorage>& gen, Position& pos, bool is3men, const std::string& clsIn, int maxTimeMs) {
    std::string cls = clsIn; { size_t p = cls.find('+'); if (p != std::string::npos) cls = cls.substr(0, p); }
    std::string fen = TextIO::toFEN(pos);
    W->crumb(cls + " " + fen);
    int s;
    if (!gen.probeDTM(pos, 0, s)) return;
    Val v = toVal(s);
    MoveList lm; MoveGen::pseudoLegalMoves(pos, lm); MoveGen::removeIllegal(pos, lm);
    if (lm.size == 0) return;
    int hmc = pos.getHalfMoveClock();
    R.count("states");
    sd::Params p; p.maxDepth = -1; p.maxNodes = -1; p.stopAfterPolls = W->args.getInt("polls", 3);
    if (maxTimeMs > 0) { p.minTimeMs = maxTimeMs; p.maxTimeMs = maxTimeMs; }
    sd::Outcome o = sd::run(env, pos, p);
    R.count("transitions", (long long)o.lines.size());
    auto rep = [&]() { return "{\"kind\":\"input\",\"class\":\"" + clsIn + "\",\"fen\":\"" + jsonEsc(fen) + "\"}"; };
    if (o.lines.empty()) { R.violation("no-pv-line", cls + " " + fen, rep()); return; }
    // final result = last line of the deepest completed iteration (bound lines and lines of an interrupted iteration describe
    // single root moves, not the root: e.g. "mate -7 upperbound" for an inferior defence in a position whose best defence
    // reaches the 50-move limit is a true statement about that move)
    const sd::PVLine* finp = o.finalCompleted();
    if (!finp) { R.count("no_completed_iteration"); return; }
    const sd::PVLine& fin = *finp;
    if (o.stopped) R.count("stopped_searches");
    // legality of best move
    bool legal = false; for (int i = 0; i < lm.size; i++) if (lm[i] == o.best) legal = true;
    if (!legal) { R.violation("bestmove-illegal", cls + " " + fen + " " + TextIO::moveToUCIString(o.best), rep()); return; }
    UndoInfo ui; Position after(pos); after.makeMove(o.best, ui);
    int sa = 0; bool fa = gen.probeDTM(after, 0, sa);
    Val va = toVal(sa);
    bool completable = v.kind > 0 ? hmc + (2 * v.n - 1) <= 100 : v.kind < 0 ? hmc + 2 * v.n <= 100 : true;
    std::string desc = clsIn + " " + fen + " exact=" + (v.kind == 0 ? "draw" : (v.kind > 0 ? "win in " : "loss in ") + std::to_string(v.n)) +
                       " reported=" + (fin.isMate ? "mate " : "cp ") + std::to_string(fin.score) + " best=" + TextIO::moveToUCIString(o.best);
    if (v.kind != 0) R.count("nontrivial");
    R.outcome(std::string(v.kind == 0 ? "draw" : v.kind > 0 ? "win" : "loss") + (completable ? "" : "-not-completable") + (fin.isMate ? ":mate" : ":cp"));
    if (v.kind == 0) {
        if (fin.isMate) R.violation("mate-score-in-drawn-position", desc, rep());
        // the opponent's win in the successor only counts if it can still be completed before the 50-move limit (at clock 99 any quiet move draws)
        int hmcAfter = after.getHalfMoveClock();
        if (fa && va.kind > 0 && hmcAfter + (2 * va.n - 1) <= 100) R.violation("draw-turned-into-loss", desc + " successor is won for the opponent in " + std::to_string(va.n), rep());
    } else if (completable) {
        if (!fin.isMate || fin.upper || fin.lower || fin.score != (v.kind > 0 ? v.n : -v.n)) R.violation("inexact-mate-distance", desc, rep());
        if (v.kind > 0) {
            // move must keep the win along a shortest mate: opponent lost in n-1
            if (!fa || va.kind >= 0 || va.n != v.n - 1) R.violation("move-does-not-keep-shortest-mate", desc + " successor=" + (fa ? std::to_string(va.kind) + "/" + std::to_string(va.n) : "not in table"), rep());
        }
    } else {
        R.count("not_completable_roots");
        // the inequality is exact when no zeroing move can occur on a winning line: 3-men classes, and 4-men classes in which every
        // capture leaves insufficient material (KBN/KBB/KNN v K)
        static const std::set<std::string> noZeroing = {"KBNvK", "KBBvK", "KNNvK", "KvKBN", "KvKBB", "KvKNN"};
        if (is3men || noZeroing.count(cls)) {
            if (fin.isMate) R.violation("mate-announced-beyond-50-move-limit", desc, rep());
        } else R.count("unverified_50move_4men");
    }
}

static void cancelCase(TBGenerator<VectorStorage>& gen, Position& pos, bool is3men, const std::string& cls, long long k) {
    W->crumb(cls + " cancelled-build k=" + std::to_string(k) + " " + TextIO::toFEN(pos));
    sd::Env env(1024 * 1024);
    // time-only search, like go infinite; the counting stop handler is only a safety net for roots whose search makes no clock query after the build
    sd::Params p; p.maxDepth = -1; p.maxNodes = -1; p.stopAfterPolls = 300; p.minTimeMs = 100000000; p.maxTimeMs = 100000000;
    p.onSearchCreated = [&](Search& sc) { armedSearch = &sc; };
    clockQueries = 0; faultAt = k; faultDelivered = false; armed = true;
    sd::Outcome first = sd::run(env, pos, p);
    armed = false; armedSearch = nullptr;
    R.count("cancelled_first_searches"); R.count("transitions", (long long)first.lines.size());
    R.count(faultDelivered ? "stops_delivered" : "stops_not_delivered");
    R.outcome(std::string("resident-after-cancel:") + (env.tt.tbGen ? "yes" : "no"));
    checkRoot(env, gen, pos, is3men, cls + "+after-cancel@" + std::to_string(k));
}
/** "... and keeps them" across a cancelled build: a first time-only search of the root is stopped at the k-th clock query (for every k up to the
 *  number of queries of an undisturbed build: inside the table generation), then the root is searched again without limit and judged like any
 *  other root. Whatever the first search left behind (nothing, after a cancelled build) must not spoil the second. */
static void cancelledBuild(const std::vector<int>& pcs, const std::string& cls, int maxRoots, long kStride) {
    VectorStorage vs; TBGenerator<VectorStorage> gen(vs, toPC(pcs)); RelaxedShared<S64> inf(-1);
    if (!gen.generate(inf, false)) { R.violation("harness:reference-generation-failed", cls, "{}"); return; }
    std::vector<int> all = {orc::WK, orc::BK}; for (int p : pcs) all.push_back(p);
    // roots: the longest win, the longest loss and a draw among every 97th placement
    std::vector<Position> roots; int bestWin = 0, bestLoss = 0; Position pw, pl, pd; bool haveDraw = false;
    unsigned long long c = 0, vc = 0; uni::Part P1{0, 1};
    uni::placeAll(all, 2, P1, [&](const orc::Board& b, unsigned long long) {
        if (vc++ % 97 != 0) return;
        Position pos; try { pos = TextIO::readFEN(orc::toFEN(b)); } catch (const ChessParseError&) { return; }
        int s; if (!gen.probeDTM(pos, 0, s)) return;
        MoveList lm; MoveGen::pseudoLegalMoves(pos, lm); MoveGen::removeIllegal(pos, lm); if (lm.size == 0) return;
        Val v = toVal(s);
        if (v.kind > 0 && v.n > bestWin) { bestWin = v.n; pw = pos; }
        if (v.kind < 0 && v.n > bestLoss) { bestLoss = v.n; pl = pos; }
        if (v.kind == 0 && !haveDraw) { haveDraw = true; pd = pos; }
    }, c, [&]() { return false; });
    if (bestWin) roots.push_back(pw); if (bestLoss) roots.push_back(pl); if (haveDraw) roots.push_back(pd);
    if ((int)roots.size() > maxRoots) roots.resize((size_t)maxRoots);
    // clock queries of an undisturbed table build with a (large) time limit: the generator polls the clock only when one is set
    long long nq = 0;
    { TranspositionTable tt(1024 * 1024); RelaxedShared<S64> big(100000000); clockQueries = 0; faultAt = -1; armed = true; bool ok = tt.updateTB(roots[0], big); armed = false; nq = clockQueries;
      if (!ok) { R.violation("harness:undisturbed-build-failed", cls, "{}"); return; } }
    R.maxOf("clock_queries_of_a_build", nq);
    // injection points: every kStride-th query, every query around the end of the build (the last test before the retrograde phase), and a few
    // after it (the search proper); + 8 for the queries the search makes before it starts the build
    std::set<long long> ks; for (long long k = 0; k < nq + 8; k += kStride) ks.insert(k);
    for (long long k = std::max(0LL, nq - 6); k < nq + 16; k++) ks.insert(k);
    unsigned long long id = 0;
    for (size_t ri = 0; ri < roots.size(); ri++) for (long long k : ks) {
        if (!W->mine(id++)) continue;
        if (W->dl.hit()) { R.exhaustive = false; return; }
        Position pos = roots[ri];
        cancelCase(gen, pos, pcs.size() == 1, cls, k);
    }
}

int main(int argc, char** argv) {
    Worker w(argc, argv); W = &w;
    br::initTexel(); evs::check();
    std::string part = w.args.get("part", "3men");
    R.part = part;
    std::vector<std::vector<int>> classes;
    std::string names = w.args.get("names", "");
    if (part == "3men" && names.empty()) { for (int col = 0; col < 2; col++) for (int t = 2; t <= 5; t++) classes.push_back({orc::mk(col == 0, t)}); }
    else {
        std::istringstream is(names); std::string n;
        while (std::getline(is, n, ',')) {
            std::vector<int> pcs; bool black = false;
            for (size_t i = 1; i < n.size(); i++) { char c = n[i]; if (c == 'v') { black = true; i++; continue; } const char* q = strchr(orc::PCH + 1, c); if (q) pcs.push_back(orc::mk(!black, (int)(q - orc::PCH))); }
            classes.push_back(pcs);
        }
    }
    std::vector<int> clocks;
    { std::istringstream is(w.args.get("clocks", "0,99")); std::string t; while (std::getline(is, t, ',')) clocks.push_back(atoi(t.c_str())); }
    bool margins = w.args.getInt("margins", 1) != 0;
    uni::Part P{w.idx, w.n};
    if (w.args.has("replay")) {
        std::string txt = readFile(w.args.get("replay"));
        std::string fen = jsonGetStr(txt, "fen");
        Position pos = TextIO::readFEN(fen);
        std::vector<int> pcs; for (int s = 0; s < 64; s++) { int p = pos.getPiece(Square(s)); if (p != Piece::EMPTY && p != Piece::WKING && p != Piece::BKING) pcs.push_back(p); }
        std::sort(pcs.begin(), pcs.end());
        VectorStorage vs; TBGenerator<VectorStorage> gen(vs, toPC(pcs)); RelaxedShared<S64> inf(-1); gen.generate(inf, false);
        sd::Env env(1024 * 1024);
        std::string rc = jsonGetStr(txt, "class");
        if (rc.find("+after-cancel@") != std::string::npos) cancelCase(gen, pos, pcs.size() == 1, rc.substr(0, rc.find('+')), atoll(rc.c_str() + rc.find('@') + 1));
        else if (rc.find("+timed") != std::string::npos) { Result keep = R; checkRoot(env, gen, pos, pcs.size() == 1, rc.substr(0, rc.find('+'))); R = keep; checkRoot(env, gen, pos, pcs.size() == 1, rc, 1500); }
        else checkRoot(env, gen, pos, pcs.size() == 1, rc);
        w.finish(R); return 0;
    }
    if (part == "cancel") {
        for (auto& pcs : classes) {
            std::string cls = uni::className([&]() { std::vector<int> v = {orc::WK, orc::BK}; for (int p : pcs) v.push_back(p); return v; }());
            cancelledBuild(pcs, cls, (int)w.args.getInt("roots", 3), w.args.getInt("kstride", 1));
            if (R.samples.size() < 3) R.sampleStr(cls + " cancelled builds");
        }
        R.count("evaluations", R.counters["states"]);
        w.finish(R);
        return 0;
    }
    for (auto& pcs : classes) {
        std::string cls = uni::className([&]() { std::vector<int> v = {orc::WK, orc::BK}; for (int p : pcs) v.push_back(p); return v; }());
        VectorStorage vs; TBGenerator<VectorStorage> gen(vs, toPC(pcs)); RelaxedShared<S64> inf(-1);
        if (!gen.generate(inf, false)) return 2;
        sd::Env env(1024 * 1024);   // 16 MB: large enough to host the on-demand table
        unsigned long long c = 0;
        std::vector<int> all = {orc::WK, orc::BK}; for (int p : pcs) all.push_back(p);
        long stride = w.args.getInt("stride", 1);
        uni::Part P1{0, 1};
        unsigned long long vcount = 0;
        uni::placeAll(all, 2, P1, [&](const orc::Board& b, unsigned long long) {
            // fixed thinning (every stride-th legal placement) and distribution over workers by the running index of legal placements
            unsigned long long vi = vcount++;
            if (vi % (unsigned long long)stride != 0) return;
            if (!P.mine(vi / (unsigned long long)stride)) return;
            Position pos;
            try { pos = TextIO::readFEN(orc::toFEN(b)); } catch (const ChessParseError&) { return; }
            int s; if (!gen.probeDTM(pos, 0, s)) return;
            Val v = toVal(s);
            std::set<int> hs(clocks.begin(), clocks.end());
            if (margins && v.kind != 0) {
                // every clock for which the 50-move margin 100 - hmc - plies-to-mate is in {-2..2}
                int plies = v.kind > 0 ? 2 * v.n - 1 : 2 * v.n;
                int mr = (int)W->args.getInt("mrange", 2);
                for (int m = -mr; m <= mr; m++) { int h = 100 - plies - m; if (h >= 0 && h <= 99) hs.insert(h); }
            }
            for (int h : hs) { pos.setHalfMoveClock(h); checkRootTwice(env, gen, pos, pcs.size() == 1, cls); }
        }, c, [&]() { return w.dl.hit(); });
        if (w.dl.hit()) { R.exhaustive = false; break; }
        if (R.samples.size() < 3) R.sampleStr(cls);
    }
    R.count("evaluations", R.counters["states"]);
    w.finish(R);
    return 0;
}

// C07: static evaluation is a pure, symmetric function of the position.
//  ops     : ALL operation sequences up to depth d (make / unmake / null-move edit / evaluate / copy-assign / setPiece edits / cache clear)
//            on a real Position connected to a real Evaluate (fresh tables per sequence => every sequence is self-contained and
//            replayable); after every sequence the incrementally maintained value must equal a from-scratch evaluation.
//  search  : every evaluation performed by real searches (ld --wrap of Evaluate::evalPos) compared with a from-scratch evaluation.
//  sym     : colour-swap and left-right mirror symmetry on position universes.
//  stream  : prints the evaluation of a fixed position stream (compared across SIMD build variants by the driver).
#include "harness/common.hpp"
#include "harness/searchdrv.hpp"
#include "oracle/universes.hpp"

using namespace vh;
static Result R;
static Worker* W;

// ---- from-scratch reference evaluator
struct RefEval {
    std::unique_ptr<Evaluate::EvalHashTables> et;
    std::unique_ptr<Evaluate> ev;
    Position copy;
    RefEval() : et(Evaluate::getEvalHashTables()), ev(new Evaluate(*et)) {}
    int eval(const Position& p, int contempt) {
        copy = p;
        ev->connectPosition(copy);
        et->nnEval->forceFullEval();
        ev->getEvalHashEntry(copy.historyHash()).data = 0;   // never answer from the cache
        ev->setWhiteContempt(contempt);
        return ev->evalPos();
    }
};
static RefEval* REF = nullptr;

// ---------------------------------------------------------------- (2) search wrap
static bool wrapActive = false;
static long long wrapCalls = 0, wrapMismatch = 0;
static std::string wrapFirst;
extern "C" int __real__ZN8Evaluate7evalPosEv(Evaluate* self);
extern "C" int __wrap__ZN8Evaluate7evalPosEv(Evaluate* self) {
    int v = __real__ZN8Evaluate7evalPosEv(self);
    if (wrapActive && REF && self != REF->ev.get()) {
        wrapActive = false;
        wrapCalls++;
        int r = REF->eval(*self->posP, self->getWhiteContempt());
        if (r != v) { wrapMismatch++; if (wrapFirst.empty()) wrapFirst = TextIO::toFEN(*self->posP) + " incremental " + std::to_string(v) + " from-scratch " + std::to_string(r); }
        wrapActive = true;
    }
    return v;
}

// ---------------------------------------------------------------- (1) operation sequences
struct Frame { int kind; Move m; UndoInfo ui; bool wtm; Square ep; int hmc; };  // kind 0 move, 1 null edit

struct Machine {
    std::unique_ptr<Evaluate::EvalHashTables> et;
    std::unique_ptr<Evaluate> ev;
    Position pos;            // the connected object
    Position sibling;        // source of copy-assignments
    std::vector<Frame> frames;
    explicit Machine(const Position& seed) : et(Evaluate::getEvalHashTables()), ev(new Evaluate(*et)), pos(seed), sibling(seed) { ev->connectPosition(pos); }
};

static const char* OPNAMES = "abcUNEAXSTC";   // a,b,c = make first/middle/last legal move; U unmake/undo; N null edit; E evaluate; A assign sibling; X assign seed-after-2;
                                              // S remove+add pieces (5 feature changes: overflow); T toggle a knight; C clear eval hash

static bool kingsSafe(Position& p) {
    Position q(p); q.setWhiteMove(!p.isWhiteMove());
    return !MoveGen::inCheck(q);
}

/** Apply op; returns false if not enabled. */
static bool applyOp(Machine& m, char op, const Position& seed2) {
    Position& pos = m.pos;
    switch (op) {
    case 'a': case 'b': case 'c': {
        MoveList ml; MoveGen::pseudoLegalMoves(pos, ml); MoveGen::removeIllegal(pos, ml);
        if (ml.size == 0) return false;
        // deterministic order: sort by compressed code
        std::vector<Move> v; for (int i = 0; i < ml.size; i++) v.push_back(ml[i]);
        std::sort(v.begin(), v.end(), [](const Move& x, const Move& y) { return x.getCompressedMove() < y.getCompressedMove(); });
        size_t i = op == 'a' ? 0 : op == 'b' ? v.size() / 2 : v.size() - 1;
        if ((op == 'b' && i == 0) || (op == 'c' && (i == 0 || i == v.size() / 2))) return false;
        // prefer captures / king moves for variety: 'a' takes the first capture if any, 'c' the last king move if any
        if (op == 'a') for (auto& x : v) if (pos.getPiece(x.to()) != Piece::EMPTY) { i = (size_t)(&x - &v[0]); break; }
        if (op == 'c') for (size_t k = v.size(); k-- > 0;) if (pos.getPiece(v[k].from()) == (pos.isWhiteMove() ? Piece::WKING : Piece::BKING)) { i = k; break; }
        if ((int)m.frames.size() >= 6) return false;
        Frame f; f.kind = 0; f.m = v[i];
        pos.makeMove(f.m, f.ui);
        m.frames.push_back(f);
        return true;
    }
    case 'U': {
        if (m.frames.empty()) return false;
        Frame f = m.frames.back(); m.frames.pop_back();
        if (f.kind == 0) pos.unMakeMove(f.m, f.ui);
        else { pos.setEpSquare(f.ep); pos.setWhiteMove(f.wtm); pos.setHalfMoveClock(f.hmc); }
        return true;
    }
    case 'N': {
        if (MoveGen::inCheck(pos)) return false;                 // the search never makes a null move in check
        if (!m.frames.empty() && m.frames.back().kind == 1) return false;
        Frame f; f.kind = 1; f.wtm = pos.isWhiteMove(); f.ep = pos.getEpSquare(); f.hmc = pos.getHalfMoveClock();
        pos.setWhiteMove(!pos.isWhiteMove()); pos.setEpSquare(Square(-1)); pos.setHalfMoveClock(0);
        m.frames.push_back(f);
        return true;
    }
    case 'E': m.ev->evalPos(); return true;
    case 'A': pos = m.sibling; m.frames.clear(); return true;
    case 'X': pos = seed2; m.frames.clear(); return true;
    case 'S': {
        // direct edits as a set-up tool would do them: 3 removals + 2 additions => more than maxIncr pending feature changes
        Position t(pos);
        std::vector<int> sqs; for (int s = 0; s < 64; s++) { int p = t.getPiece(Square(s)); if (p != Piece::EMPTY && p != Piece::WKING && p != Piece::BKING) sqs.push_back(s); }
        if (sqs.size() < 4) return false;
        int e1 = -1, e2 = -1; for (int s = 16; s < 48; s++) if (t.getPiece(Square(s)) == Piece::EMPTY) { if (e1 < 0) e1 = s; else if (e2 < 0) { e2 = s; break; } }
        if (e2 < 0) return false;
        t.setPiece(Square(sqs[0]), Piece::EMPTY); t.setPiece(Square(sqs[1]), Piece::EMPTY); t.setPiece(Square(sqs.back()), Piece::EMPTY);
        t.setPiece(Square(e1), Piece::WKNIGHT); t.setPiece(Square(e2), Piece::BBISHOP);
        t.setEpSquare(Square(-1)); t.setCastleMask(0);
        if (!kingsSafe(t)) return false;
        pos.setPiece(Square(sqs[0]), Piece::EMPTY); pos.setPiece(Square(sqs[1]), Piece::EMPTY); pos.setPiece(Square(sqs.back()), Piece::EMPTY);
        pos.setPiece(Square(e1), Piece::WKNIGHT); pos.setPiece(Square(e2), Piece::BBISHOP);
        pos.setEpSquare(Square(-1)); pos.setCastleMask(0);
        m.frames.clear();
        return true;
    }
    case 'T': {
        // toggle one knight on the first empty square of rank 4 (single feature change, stays <= 32 men)
        int sq = -1; for (int s = 24; s < 32; s++) { int p = pos.getPiece(Square(s)); if (p == Piece::EMPTY || p == Piece::BKNIGHT) { sq = s; break; } }
        if (sq < 0) return false;
        Position t(pos); t.setPiece(Square(sq), t.getPiece(Square(sq)) == Piece::EMPTY ? Piece::BKNIGHT : Piece::EMPTY);
        if (BitBoard::bitCount(t.occupiedBB()) > 32 || !kingsSafe(t)) return false;
        t.setEpSquare(Square(-1));
        if (MoveGen::inCheck(t) && false) return false;
        pos.setPiece(Square(sq), pos.getPiece(Square(sq)) == Piece::EMPTY ? Piece::BKNIGHT : Piece::EMPTY);
        pos.setEpSquare(Square(-1));
        m.frames.clear();
        return true;
    }
    case 'C': for (auto& e : m.et->evalHash) e.data = 0; return true;
    }
    return false;
}

static void opSequences(const std::vector<std::string>& seeds, int depth, const std::string& alphabet) {
    unsigned long long id = 0;
    for (auto& sf : seeds) {
        Position seed = TextIO::readFEN(sf);
        // seed2 = position two plies later (another source for assignments)
        Position seed2(seed);
        { MoveList ml; UndoInfo ui; for (int k = 0; k < 2; k++) { MoveGen::pseudoLegalMoves(seed2, ml); MoveGen::removeIllegal(seed2, ml); if (ml.size) seed2.makeMove(ml[ml.size / 2], ui); } }
        std::string seq;
        std::function<void()> rec = [&]() {
            // every sequence (including every prefix) is executed on a fresh machine and checked at its end
            if (!seq.empty()) {
                unsigned long long my = id++;
                if (W->mine(my)) {
                    if ((my & 1023) == 0) W->crumb(sf + " ops " + seq);
                    Machine m(seed);
                    bool ok = true;
                    for (char c : seq) if (!applyOp(m, c, seed2)) { ok = false; break; }
                    if (ok) {
                        R.count("states"); R.count("transitions", (long long)seq.size());
                        int inc = m.ev->evalPos();
                        int ref = REF->eval(m.pos, 0);
                        bool usedIncr = seq.find_first_of("abcU") != std::string::npos;
                        if (usedIncr) R.count("nontrivial");
                        if (inc != ref && getenv("C07_DEBUG")) {
                            Machine m2(seed); for (char c : seq) applyOp(m2, c, seed2);
                            int inc2 = m2.ev->evalPos();
                            auto et3 = Evaluate::getEvalHashTables(); Evaluate ev3(*et3); Position c3(m.pos); ev3.connectPosition(c3); int fresh = ev3.evalPos();
                            fprintf(stderr, "DEBUG seq %s inc %d ref %d inc-again %d fresh %d ref-again %d  fenM %s fenM2 %s\n", seq.c_str(), inc, ref, inc2, fresh, REF->eval(m.pos, 0), TextIO::toFEN(m.pos).c_str(), TextIO::toFEN(m2.pos).c_str());
                        }
                        if (inc != ref) R.violation("incremental-eval-differs-from-scratch", sf + " ops " + seq + " -> " + TextIO::toFEN(m.pos) + " incremental " + std::to_string(inc) + " from-scratch " + std::to_string(ref),
                                                    "{\"kind\":\"ops\",\"fen\":\"" + jsonEsc(sf) + "\",\"ops\":\"" + seq + "\"}");
                        // evaluating twice gives the same value (cache hit path)
                        if (m.ev->evalPos() != inc) R.violation("second-evaluation-differs", sf + " ops " + seq, "{\"kind\":\"ops\",\"fen\":\"" + jsonEsc(sf) + "\",\"ops\":\"" + seq + "\"}");
                        if (R.samples.size() < 3 && seq.size() >= 4 && (my % 5003) == 1) R.sampleStr(sf + " ops " + seq);
                    }
                }
            }
            if ((int)seq.size() == depth) return;
            // only extend sequences that are enabled (checked cheaply on a machine without evaluation cost)
            for (char c : alphabet) {
                seq.push_back(c);
                {
                    Machine m(seed); bool ok = true;
                    for (char x : seq) if (!applyOp(m, x, seed2)) { ok = false; break; }
                    if (ok) rec();
                }
                seq.pop_back();
                if (W->dl.hit()) { R.exhaustive = false; return; }
            }
        };
        rec();
        if (!R.exhaustive) return;
    }
}

// ---------------------------------------------------------------- (3) symmetry
static Position colourSwap(const Position& p) {
    Position q;
    for (int s = 0; s < 64; s++) { int pc = p.getPiece(Square(s)); if (pc != Piece::EMPTY) q.setPiece(Square(s ^ 56), Piece::isWhite(pc) ? Piece::makeBlack(pc) : Piece::makeWhite(pc)); }
    q.setWhiteMove(!p.isWhiteMove());
    int cm = p.getCastleMask(); q.setCastleMask(((cm & 3) << 2) | ((cm >> 2) & 3));
    if (p.getEpSquare().isValid()) q.setEpSquare(Square(p.getEpSquare().asInt() ^ 56));
    q.setHalfMoveClock(p.getHalfMoveClock()); q.setFullMoveCounter(p.getFullMoveCounter());
    return q;
}
static Position mirrorLR(const Position& p) {
    Position q;
    for (int s = 0; s < 64; s++) { int pc = p.getPiece(Square(s)); if (pc != Piece::EMPTY) q.setPiece(Square(s ^ 7), pc); }
    q.setWhiteMove(p.isWhiteMove());
    if (p.getEpSquare().isValid()) q.setEpSquare(Square(p.getEpSquare().asInt() ^ 7));
    q.setHalfMoveClock(p.getHalfMoveClock()); q.setFullMoveCounter(p.getFullMoveCounter());
    return q;
}

static void symmetryOn(const orc::Board& b) {
    Position p; try { p = TextIO::readFEN(orc::toFEN(b)); } catch (const ChessParseError&) { return; }
    R.count("states");
    for (int contempt : {0, 37}) {
        int e = REF->eval(p, contempt);
        Position s = colourSwap(p);
        int es = REF->eval(s, -contempt);
        R.count("transitions");
        if (e != es) R.violation("colour-swap-asymmetry", orc::toFEN(b) + " contempt " + std::to_string(contempt) + " eval " + std::to_string(e) + " swapped " + std::to_string(es), "{\"kind\":\"input\",\"fen\":\"" + jsonEsc(orc::toFEN(b)) + "\"}");
        if (p.getCastleMask() == 0) {
            Position m = mirrorLR(p);
            int em = REF->eval(m, contempt);
            R.count("transitions");
            if (e != em) R.violation("mirror-asymmetry", orc::toFEN(b) + " eval " + std::to_string(e) + " mirrored " + std::to_string(em), "{\"kind\":\"input\",\"fen\":\"" + jsonEsc(orc::toFEN(b)) + "\"}");
        }
        if (e != 0) R.count("nontrivial");
    }
}

static const std::vector<std::string> SEEDS = {
    "r3k2r/p1ppqpb1/bn2pnp1/3PN3/1p2P3/2N2Q1p/PPPBBPPP/R3K2R w KQkq - 0 1",     // castling with capture nearby, many captures
    "rnbqkbnr/ppp1p1pp/8/3pPp2/8/8/PPPP1PPP/RNBQKBNR w KQkq f6 0 3",           // en passant
    "r3k2r/1P4P1/8/8/8/8/1p4p1/R3K2R w KQkq - 0 1",                           // capture-promotions
    "8/8/8/3k4/8/3K4/4P3/8 w - - 0 1",                                        // kings near the e-file mirror boundary, king walks
    "4k3/8/8/8/8/qqqqq3/ppp5/7K b - - 0 1",                                   // queen-heavy material
    "r1bq1rk1/pp2bppp/2n1pn2/2pp4/3P1B2/2PBPN2/PP1N1PPP/R2QK2R w KQ - 2 8",
};

int main(int argc, char** argv) {
    Worker w(argc, argv); W = &w;
    br::initTexel(); evs::check();
    REF = new RefEval();
    std::string part = w.args.get("part", "ops");
    R.part = part;
    uni::Part P{w.idx, w.n};
    if (w.args.has("replay")) {
        std::string txt = readFile(w.args.get("replay"));
        std::string fen = jsonGetStr(txt, "fen"), ops = jsonGetStr(txt, "ops");
        if (!ops.empty()) {
            Position seed = TextIO::readFEN(fen); Position seed2(seed);
            { MoveList ml; UndoInfo ui; for (int k = 0; k < 2; k++) { MoveGen::pseudoLegalMoves(seed2, ml); MoveGen::removeIllegal(seed2, ml); if (ml.size) seed2.makeMove(ml[ml.size / 2], ui); } }
            Machine m(seed); for (char c : ops) applyOp(m, c, seed2);
            int inc = m.ev->evalPos(), ref = REF->eval(m.pos, 0);
            if (inc != ref) R.violation("incremental-eval-differs-from-scratch", fen + " ops " + ops, "{}");
        } else { orc::Board b; if (orc::fromFEN(fen, b)) symmetryOn(b); }
        w.finish(R); return 0;
    }
    if (part == "ops") opSequences(SEEDS, (int)w.args.getInt("depth", 5), w.args.get("alphabet", "abcUNEAXSTC"));
    else if (part == "search") {
        auto seeds = uni::readSeeds(w.args.get("seeds", "corpus/seeds.fen"));
        int d = (int)w.args.getInt("depth", 4);
        sd::Env env(16384);
        uni::UPERFT(seeds, (int)w.args.getInt("perft", 1), P, [&](const orc::Board& b, unsigned long long, int) {
            if (orc::legalMoves(b).empty()) return;
            Position pos; try { pos = TextIO::readFEN(orc::toFEN(b)); } catch (const ChessParseError&) { return; }
            W->crumb("search " + orc::toFEN(b));
            sd::Params p; p.maxDepth = d; p.minProbeDepth = 100;
            long long before = wrapCalls, mm = wrapMismatch;
            wrapActive = true;
            sd::run(env, pos, p);
            wrapActive = false;
            R.count("states"); R.count("transitions", wrapCalls - before);
            if (wrapCalls > before) R.count("nontrivial");
            if (wrapMismatch > mm) { R.violation("search-evaluation-differs-from-scratch", "root " + orc::toFEN(b) + " first: " + wrapFirst, "{\"kind\":\"input\",\"fen\":\"" + jsonEsc(orc::toFEN(b)) + "\"}"); wrapFirst.clear(); }
            if (W->dl.hit()) R.exhaustive = false;
        });
        R.count("wrapped_evaluations", wrapCalls);
    }
    else if (part == "sym") {
        std::string u = w.args.get("universe", "u3");
        auto visit = [&](const orc::Board& b, unsigned long long) { symmetryOn(b); };
        if (u == "u3") uni::U3((int)w.args.getInt("wk", 0), P, visit);
        else if (u == "u4") {
            auto classes = uni::u4Classes(false); long from = w.args.getInt("from", 0), cnt = w.args.getInt("count", 4); unsigned long long c = 0;
            for (long i = from; i < from + cnt; i++) { uni::placeAll(classes[(size_t)(i % (long)classes.size())], (int)w.args.getInt("wk", 2), P, visit, c, [&]() { return w.dl.hit(); }); if (w.dl.hit()) { R.exhaustive = false; break; } R.outcome(uni::className(classes[(size_t)(i % (long)classes.size())])); }
        }
        else if (u == "perft") { auto seeds = uni::readSeeds(w.args.get("seeds", "corpus/seeds.fen")); uni::UPERFT(seeds, (int)w.args.getInt("depth", 2), P, [&](const orc::Board& b, unsigned long long, int) { symmetryOn(b); }, 2, [&]() { return w.dl.hit(); }); if (w.dl.hit()) R.exhaustive = false; }
        else if (u == "5men") {
            // sub-lattice of the 5-men endgame-rule classes: KRPKR, KBPKB, KBPKN, KNPKB, KQKRP (white pawn on files a-d ranks 2-7, kings/pieces thinned)
            std::vector<std::vector<int>> cl = {{orc::WK, orc::BK, orc::WR, orc::WP, orc::BR}, {orc::WK, orc::BK, orc::WB, orc::WP, orc::BB}, {orc::WK, orc::BK, orc::WB, orc::WP, orc::BN}, {orc::WK, orc::BK, orc::WN, orc::WP, orc::BB}, {orc::WK, orc::BK, orc::WQ, orc::BR, orc::BP}};
            // sub-lattice: kings on every ks-th square, first piece on every xs-th, pawn on every legal square, last piece on every ys-th
            int ks = (int)w.args.getInt("ks", 5), xs = (int)w.args.getInt("xs", 3), ys = (int)w.args.getInt("ys", 7);
            unsigned long long id = 0;
            for (auto& c5 : cl) for (int wk = 0; wk < 64; wk += ks) for (int bk = 1; bk < 64; bk += ks) for (int x = 0; x < 64; x += xs) for (int pw = 8; pw < 56; pw++) for (int y = 2; y < 64; y += ys) {
                if (!P.mine(id++)) continue;
                int sq[5] = {wk, bk, x, pw, y};
                // the pawn is the piece of type P in the class (index 3 or 4)
                orc::Board b; bool ok = true;
                int order[5] = {0, 1, 2, 3, 4};
                if (orc::typeOf(c5[4]) == 6) { order[3] = 4; order[4] = 3; }
                for (int i = 0; i < 5 && ok; i++) { int s = sq[i]; int pc = c5[order[i]]; if (b.sq[s]) ok = false; else b.sq[s] = (signed char)pc; }
                if (!ok) continue;
                for (int stm = 0; stm < 2; stm++) { b.wtm = stm == 0; if (uni::validPlacement(b)) symmetryOn(b); }
                if ((id & 0xffff) == 0 && w.dl.hit()) { R.exhaustive = false; goto done5; }
            }
            done5:;
        }
        else if (u == "rules6") {
            // sub-lattices of the 6-men material signatures that have their own rule in endGameEval.cpp: KRP v KRP (bounds from two KRPKR look-ups),
            // KQ v KR+minor+P and KQ v KRPP (fortress detection); kings on every ks-th square, pieces on every xs-th, pawns on every ps-th legal square
            int ks = (int)w.args.getInt("ks", 5), xs = (int)w.args.getInt("xs", 5), ps = (int)w.args.getInt("ps", 3);
            std::vector<std::vector<int>> cl = {{orc::WK, orc::BK, orc::WR, orc::BR, orc::WP, orc::BP}, {orc::WK, orc::BK, orc::WQ, orc::BR, orc::BB, orc::BP}, {orc::WK, orc::BK, orc::WQ, orc::BR, orc::BN, orc::BP}, {orc::WK, orc::BK, orc::WQ, orc::BR, orc::BP, orc::BP}};
            unsigned long long id = 0;
            for (auto& c6 : cl) {
                std::vector<int> sq(6, 0);
                std::function<void(int, orc::Board&)> rec = [&](int i, orc::Board& b) {
                    if (!R.exhaustive) return;
                    if (i == 6) {
                        if (!P.mine(id++)) return;
                        for (int stm = 0; stm < 2; stm++) { b.wtm = stm == 0; if (uni::validPlacement(b)) symmetryOn(b); }
                        if ((id & 0xffff) == 0 && w.dl.hit()) R.exhaustive = false;
                        return;
                    }
                    int t = orc::typeOf(c6[(size_t)i]);
                    int lo = t == 6 ? 8 : 0, hi = t == 6 ? 56 : 64, step = t == 1 ? ks : t == 6 ? ps : xs, off = t == 1 ? i : (i * 2) % step;
                    for (int s0 = lo + off; s0 < hi; s0 += step) { if (b.sq[s0]) continue; b.sq[s0] = (signed char)c6[(size_t)i]; rec(i + 1, b); b.sq[s0] = 0; }
                };
                orc::Board b; rec(0, b);
                R.outcome(uni::className(c6));
            }
        }
    }
    else if (part == "stream") {
        // fixed evaluation stream for cross-build comparison: prints position hash + value
        auto seeds = uni::readSeeds(w.args.get("seeds", "corpus/seeds.fen"));
        unsigned long long h = 1469598103934665603ULL; long long n = 0;
        uni::Part all{0, 1};
        auto add = [&](const orc::Board& b) { Position p; try { p = TextIO::readFEN(orc::toFEN(b)); } catch (const ChessParseError&) { return; } int e = REF->eval(p, 0); h ^= (unsigned long long)(e + 40000) + (h << 6) + (h >> 2); n++; };
        uni::UPERFT(seeds, 2, all, [&](const orc::Board& b, unsigned long long, int) { add(b); });
        uni::U3(2, all, [&](const orc::Board& b, unsigned long long) { add(b); });
        // incremental path too: walk a line with make/unmake and evaluate through a long-lived evaluator
        { Machine m(TextIO::readFEN(SEEDS[0])); Position s2(m.pos); for (const char* q = "abEcEUUEaNEUbcEUEU"; *q; q++) { applyOp(m, *q, s2); int e = m.ev->evalPos(); h ^= (unsigned long long)(e + 40000) + (h << 6) + (h >> 2); n++; } }
        R.count("states", n); R.count("transitions", n); R.count("nontrivial", n);
        char buf[64]; snprintf(buf, sizeof buf, "%016llx", h);
        R.outcome(std::string("streamhash:") + buf);
        R.note = buf;
    }
    else return 2;
    R.count("evaluations", R.counters["states"]);
    w.finish(R);
    return 0;
}

// C20: the rank-constraint solver decides satisfiability exactly.
// Bounded-exhaustive enumeration of constraint systems (1..3 variables) on the real CspSolver, oracle = brute force.
#include "harness/common.hpp"
#include "cspsolver.hpp"
#include <sstream>

using namespace vh;
static Result R;
static Worker* W;

struct VarCfg { int mn, mx, parity /*0 none 1 even 2 odd*/, tKind /*0 none 1 addMinVal 2 addMaxVal*/, tVal; };
struct Con { int i, op /*0 LE 1 GE 2 EQ*/, j, c; };

static std::string sysStr(const std::vector<VarCfg>& vs, const std::vector<Con>& cs, int pref) {
    std::ostringstream o;
    o << "pref=" << pref;
    for (size_t k = 0; k < vs.size(); k++) {
        o << " v" << k << "[" << vs[k].mn << "," << vs[k].mx << "]";
        if (vs[k].parity == 1) o << "even"; if (vs[k].parity == 2) o << "odd";
        if (vs[k].tKind == 1) o << ">=" << vs[k].tVal; if (vs[k].tKind == 2) o << "<=" << vs[k].tVal;
    }
    for (auto& c : cs) o << " v" << c.i << (c.op == 0 ? "<=" : c.op == 1 ? ">=" : "==") << "v" << c.j << (c.c >= 0 ? "+" : "") << c.c;
    return o.str();
}

static bool inDom(const VarCfg& v, int x) {
    if (x < v.mn || x > v.mx) return false;
    if (v.parity == 1 && (x & 1)) return false;
    if (v.parity == 2 && !(x & 1)) return false;
    if (v.tKind == 1 && x < v.tVal) return false;
    if (v.tKind == 2 && x > v.tVal) return false;
    return true;
}
static bool conOk(const Con& c, const int* val) {
    int a = val[c.i], b = val[c.j] + c.c;
    return c.op == 0 ? a <= b : c.op == 1 ? a >= b : a == b;
}

static bool brute(const std::vector<VarCfg>& vs, const std::vector<Con>& cs) {
    int n = (int)vs.size();
    std::vector<std::vector<int>> dom(n);
    for (int k = 0; k < n; k++) { for (int x = -16; x <= 47; x++) if (inDom(vs[k], x)) dom[k].push_back(x); if (dom[k].empty()) return false; }
    int val[3]; size_t idx[3] = {0, 0, 0};
    while (true) {
        for (int k = 0; k < n; k++) val[k] = dom[k][idx[k]];
        bool ok = true;
        for (auto& c : cs) if (!conOk(c, val)) { ok = false; break; }
        if (ok) return true;
        int k = 0;
        while (k < n && ++idx[k] == dom[k].size()) { idx[k] = 0; k++; }
        if (k == n) return false;
    }
}

/** split >= 0: the solver object has a history - the first `split` constraints are added, solve() is called once (result discarded), then the rest is
 *  added and solve() is called again; the second answer must be that of the whole system. */
static std::vector<int> prefPerVar;   // part "mixed": one value-ordering preference per variable (pref is then only a label)
static int runSolver(const std::vector<VarCfg>& vs, const std::vector<Con>& cs, int pref, std::vector<int>& values, int split = -1) {
    std::ostringstream sink;
    CspSolver s(sink, true);
    size_t vk = 0;
    for (auto& v : vs) {
        int id = s.addVariable((CspSolver::PrefVal)(prefPerVar.empty() ? pref : prefPerVar[vk]), v.mn, v.mx); vk++;
        if (v.parity == 1) s.makeEven(id); if (v.parity == 2) s.makeOdd(id);
        if (v.tKind == 1) s.addMinVal(id, v.tVal); if (v.tKind == 2) s.addMaxVal(id, v.tVal);
    }
    int k = 0;
    for (auto& c : cs) {
        if (k++ == split) { std::vector<int> first; s.solve(first); }
        if (c.op == 2) s.addEq(c.i, c.j, c.c);
        else s.addIneq(c.i, c.op == 0 ? CspSolver::LE : CspSolver::GE, c.j, c.c);
    }
    return s.solve(values) ? 1 : 0;
}

static unsigned long long sysId = 0;
static long long onlyId = -1;
static std::string curPart;

static void checkSystem(const std::vector<VarCfg>& vs, const std::vector<Con>& cs) {
    unsigned long long id = sysId++;
    if (onlyId >= 0) { if ((long long)id != onlyId) return; }
    else if (!W->mine(id)) return;
    bool sat = brute(vs, cs);
    R.count("states");
    bool nt = !cs.empty();
    for (auto& v : vs) if (v.mn > v.mx) nt = false;
    if (nt) R.count("nontrivial");
    R.count(sat ? "satisfiable" : "unsatisfiable");
    unsigned sel = (unsigned)((id * 2654435761ULL) >> 20) & 7;  // all four orders on 1/8 of the systems, one fixed order otherwise
    int prefFrom = sel == 0 ? 0 : (int)(sel & 3), prefTo = sel == 0 ? 3 : (int)(sel & 3);
    for (int pref = prefFrom; pref <= prefTo; pref++) for (int split = -1; split < (int)cs.size(); split = (split < 0 ? (cs.empty() ? 1 : (int)cs.size() - 1) : (int)cs.size())) {
        // split -1: build, solve once; split = #constraints - 1: the last constraint arrives after a first solve() of the same object
        if ((id & 0xfff) == 0) W->crumb(sysStr(vs, cs, pref));
        std::vector<int> values;
        int r = runSolver(vs, cs, pref, values, split);
        R.count("transitions"); if (split >= 0) R.count("second_solves");
        auto rep = [&]() { return "{\"kind\":\"input\",\"cpart\":\"" + curPart + "\",\"id\":" + std::to_string(id) + ",\"system\":\"" + jsonEsc(sysStr(vs, cs, pref)) + "\"}"; };
        std::string hist = split >= 0 ? " (last constraint added after a first solve)" : "";
        if ((r != 0) != sat) { R.violation(sat ? "solver-says-unsolvable-but-solution-exists" : "solver-says-solvable-but-none-exists", sysStr(vs, cs, pref) + hist, rep()); continue; }
        if (r) {
            if (values.size() != vs.size()) { R.violation("assignment-size", sysStr(vs, cs, pref), rep()); continue; }
            int val[3] = {0, 0, 0}; bool ok = true;
            for (size_t k = 0; k < vs.size(); k++) { val[k] = values[k]; if (!inDom(vs[k], val[k])) ok = false; }
            for (auto& c : cs) if (!conOk(c, val)) ok = false;
            if (!ok) R.violation("returned-assignment-violates-constraints", sysStr(vs, cs, pref) + " -> " + std::to_string(val[0]) + "," + std::to_string(val[1]) + "," + std::to_string(val[2]), rep());
        }
    }
    if (R.samples.size() < 3 && nt && (id % 100003) == 7) R.sampleStr(sysStr(vs, cs, 0) + (sat ? " SAT" : " UNSAT"));
}

/** Every combination of per-variable value-ordering preferences (SMALL, LARGE, MIDDLE_SMALL, MIDDLE_LARGE) for one system: the preference must
 *  never change the answer, only which solution is returned. */
static void checkSystemMixed(const std::vector<VarCfg>& vs, const std::vector<Con>& cs) {
    unsigned long long id = sysId++;
    if (onlyId >= 0) { if ((long long)id != onlyId) return; }
    else if (!W->mine(id)) return;
    bool sat = brute(vs, cs);
    R.count("states"); R.count("nontrivial"); R.count(sat ? "satisfiable" : "unsatisfiable");
    int n = (int)vs.size(), combos = 1; for (int k = 0; k < n; k++) combos *= 4;
    for (int pc = 0; pc < combos; pc++) {
        prefPerVar.clear(); int label = 0; for (int k = 0, x = pc; k < n; k++, x /= 4) { prefPerVar.push_back(x % 4); label = label * 10 + x % 4; }
        std::vector<int> values;
        int r = runSolver(vs, cs, 1000 + label, values, -1);
        R.count("transitions");
        auto rep = [&]() { return "{\"kind\":\"input\",\"cpart\":\"" + curPart + "\",\"id\":" + std::to_string(id) + ",\"system\":\"" + jsonEsc(sysStr(vs, cs, 1000 + label)) + "\"}"; };
        if ((r != 0) != sat) { R.violation(sat ? "solver-says-unsolvable-but-solution-exists" : "solver-says-solvable-but-none-exists", sysStr(vs, cs, 1000 + label) + " (pref = 1000 + one digit per variable, last variable first: 0 SMALL 1 LARGE 2 MIDDLE_SMALL 3 MIDDLE_LARGE)", rep()); continue; }
        if (r) {
            int val[3] = {0, 0, 0}; bool ok = values.size() == vs.size();
            for (size_t k = 0; ok && k < vs.size(); k++) { val[k] = values[k]; if (!inDom(vs[k], val[k])) ok = false; }
            if (ok) for (auto& c : cs) if (!conOk(c, val)) ok = false;
            if (!ok) R.violation("returned-assignment-violates-constraints", sysStr(vs, cs, 1000 + label), rep());
        }
    }
    prefPerVar.clear();
    if (R.samples.size() < 3 && (id % 10007) == 7) R.sampleStr(sysStr(vs, cs, 0) + (sat ? " SAT" : " UNSAT") + " x 4^n preference combinations");
}

int main(int argc, char** argv) {
    Worker w(argc, argv); W = &w;
    std::string part = w.args.get("part", "n1");
    R.part = part;
    bool thorough = w.args.get("tier", "quick") == "thorough";
    if (w.args.has("replay")) {
        std::string txt = readFile(w.args.get("replay"));
        part = jsonGetStr(txt, "cpart", part); onlyId = jsonGetInt(txt, "id", -1);
        thorough = true; // superset enumeration order differs per tier: try both below
        if (onlyId < 0) return 2;
    }
    curPart = part;
    // range list
    std::vector<std::pair<int,int>> RL;
    for (int a : {-16, -15, -1, 0, 1, 2, 3, 44, 45, 46, 47}) for (int wd = 0; wd <= 3; wd++) if (a + wd <= 47) RL.push_back({a, a + wd});
    RL.push_back({1, 0}); RL.push_back({47, -16}); RL.push_back({-16, 47}); RL.push_back({1, 6});
    std::vector<int> CV9 = {-63, -17, -2, -1, 0, 1, 2, 17, 63}, CV5 = {-17, -1, 0, 1, 17};
    auto tightenings = [&](const std::pair<int,int>& r, bool full) {
        std::vector<std::pair<int,int>> t = {{0, 0}, {1, r.first + 1}, {2, r.second - 1}};
        if (full) { t.push_back({1, -16}); t.push_back({2, 47}); t.push_back({1, 47}); t.push_back({2, -16}); }
        std::vector<std::pair<int,int>> o;
        for (auto& x : t) if (x.first == 0 || (x.second >= -16 && x.second <= 47)) o.push_back(x);
        return o;
    };
    bool cut = false;
    if (part == "n1") {
        std::vector<Con> CL;
        for (int op = 0; op < 3; op++) for (int c : CV9) CL.push_back(Con{0, op, 0, c});
        for (auto& r : RL) for (int par = 0; par < 3; par++) for (auto& t : tightenings(r, true)) {
            std::vector<VarCfg> vs = {VarCfg{r.first, r.second, par, t.first, t.second}};
            checkSystem(vs, {});
            for (auto& c1 : CL) { checkSystem(vs, {c1}); for (auto& c2 : CL) checkSystem(vs, {c1, c2}); }
        }
    } else if (part == "n2") {
        std::vector<std::pair<int,int>> R2 = {{-16,-16}, {-16,-14}, {-1,1}, {0,3}, {1,1}, {1,4}, {2,3}, {44,47}, {46,47}, {47,47}, {1,0}, {1,6}};
        if (thorough) R2.push_back({-16, 47});
        const std::vector<int>& CV = thorough ? CV9 : CV5;
        std::vector<Con> CL;
        for (int i = 0; i < 2; i++) for (int j = 0; j < 2; j++) for (int op = 0; op < 3; op++) for (int c : CV) CL.push_back(Con{i, op, j, c});
        std::vector<VarCfg> VC;
        for (auto& r : R2) for (int par = 0; par < 3; par++) for (auto& t : tightenings(r, false)) VC.push_back(VarCfg{r.first, r.second, par, t.first, t.second});
        for (auto& a : VC) { for (auto& b : VC) {
            std::vector<VarCfg> vs = {a, b};
            checkSystem(vs, {});
            for (size_t x = 0; x < CL.size(); x++) {
                checkSystem(vs, {CL[x]});
                for (size_t y = x; y < CL.size(); y++) checkSystem(vs, {CL[x], CL[y]});
            }
        } if (w.dl.hit()) { cut = true; break; } }
    } else if (part == "n3") {
        std::vector<std::pair<int,int>> R3 = {{-16,-14}, {0,3}, {1,3}, {2,2}, {45,47}, {1,6}};
        std::vector<VarCfg> VC;
        for (auto& r : R3) for (int par : {0, 2}) VC.push_back(VarCfg{r.first, r.second, par, 0, 0});
        std::vector<Con> CL;
        for (int i = 0; i < 3; i++) for (int j = 0; j < 3; j++) for (int op = 0; op < 3; op++) for (int c : CV5) CL.push_back(Con{i, op, j, c});
        std::vector<int> CC = {-2, -1, 0, 1, 2};
        for (auto& a : VC) { for (auto& b : VC) for (auto& c : VC) {
            std::vector<VarCfg> vs = {a, b, c};
            checkSystem(vs, {});
            for (size_t x = 0; x < CL.size(); x++) {
                checkSystem(vs, {CL[x]});
                if (thorough) for (size_t y = x; y < CL.size(); y++) checkSystem(vs, {CL[x], CL[y]});
            }
            // cycles v0<=v1+c1, v1<=v2+c2, v2<=v0+c3 and the equality chain
            for (int c1 : CC) for (int c2 : CC) for (int c3 : CC) {
                checkSystem(vs, {Con{0, 0, 1, c1}, Con{1, 0, 2, c2}, Con{2, 0, 0, c3}});
                checkSystem(vs, {Con{0, 2, 1, c1}, Con{1, 2, 2, c2}, Con{2, 1, 0, c3}});
            }
        } if (w.dl.hit()) { cut = true; break; } }
    } else if (part == "mixed") {
        // three variables, each with its own preference; two or three inequalities / equalities tying v1 and v2 to v0 (and to each other): the shape
        // ExtProofKernel builds (pawn start ranks are MIDDLE_SMALL / MIDDLE_LARGE variables bounded by other variables)
        std::vector<std::pair<int,int>> RM = {{0, 7}, {1, 6}, {2, 5}, {0, 3}};
        if (thorough) { RM.push_back({1, 4}); RM.push_back({3, 6}); }
        std::vector<int> CM = {-2, -1, 0, 1, 2};
        for (auto& r0 : RM) { for (auto& r1 : RM) for (auto& r2 : RM) {
            std::vector<VarCfg> vs = {VarCfg{r0.first, r0.second, 0, 0, 0}, VarCfg{r1.first, r1.second, 0, 0, 0}, VarCfg{r2.first, r2.second, 0, 0, 0}};
            for (int op1 = 0; op1 < 3; op1++) for (int c1 : CM) for (int op2 = 0; op2 < 3; op2++) for (int c2 : CM) {
                checkSystemMixed(vs, {Con{1, op1, 0, c1}, Con{2, op2, 0, c2}});
                if (thorough || (c1 == c2)) for (int op3 = 0; op3 < 2; op3++) checkSystemMixed(vs, {Con{1, op1, 0, c1}, Con{2, op2, 0, c2}, Con{1, op3, 2, 0}});
            }
        } if (w.dl.hit()) { cut = true; break; } }
    } else return 2;
    if (cut) R.exhaustive = false;
    R.count("evaluations", R.counters["states"]);
    w.finish(R);
    return 0;
}

// C10 (stop / acknowledge protocol): the real ThreadCommunicator objects arranged in EVERY rooted tree of up to N nodes, driven by
// fibers that run the message loops of the engine thread (node 0) and of the helper threads (nodes 1..n-1). Scheduling points are the
// mailbox mutex acquisitions (every send and every receive); ALL interleavings are explored (no preemption bound) with caching of the
// complete protocol state. Two searches are started and stopped; after each, when the root has collected its acknowledgements,
// every helper must be idle and acknowledged, and the run must not deadlock.
// The helper side mirrors WorkerThread::mainLoop / WorkerThread::CommHandler statement by statement (those members cannot be run without
// spawning OS threads); everything inside Communicator / ThreadCommunicator (queues, counters, filters, forwarding) is the real code.
#include "harness/common.hpp"
#include "harness/bridge.hpp"
#include "parallel.hpp"
#include "transpositionTable.hpp"
#include "textio.hpp"
#include "sched/fiber.hpp"
#include <dlfcn.h>

using namespace vh;
static Result R;
static Worker* W;

static int lockDepth = 0;   // one OS thread: critical sections are never interrupted, so a mutex is never found locked
extern "C" void verif_atomic_point(int, const void*) { if (lockDepth == 0) fib::point(); }
extern "C" void verif_atomic_read(unsigned long long) {}
typedef int (*mtx_fn)(pthread_mutex_t*);
extern "C" int pthread_mutex_lock(pthread_mutex_t* m) {
    static mtx_fn real = (mtx_fn)dlsym(RTLD_NEXT, "pthread_mutex_lock");
    if (lockDepth == 0) fib::point();
    lockDepth++;
    return real(m);
}
extern "C" int pthread_mutex_unlock(pthread_mutex_t* m) {
    static mtx_fn real = (mtx_fn)dlsym(RTLD_NEXT, "pthread_mutex_unlock");
    int r = real(m);
    if (lockDepth > 0) lockDepth--;
    return r;
}

struct Node;
struct HelperHandler : public Communicator::CommandHandler {     // = WorkerThread::CommHandler
    Node& n; explicit HelperHandler(Node& n) : n(n) {}
    void initSearch(const Position& pos, const std::vector<U64>& l, int sz, bool clr, int wc) override;
    void startSearch(int jobId, const SearchTreeInfo& sti, int alpha, int beta, int depth) override;
    void stopSearch() override;
    void reportResult(int jobId, int score) override;
    void stopAck() override;
};
struct Node {
    Notifier notifier;
    std::unique_ptr<ThreadCommunicator> comm;
    int jobId = -1; bool hasResult = false;    // WorkerThread::jobId / hasResult
    bool waiting = false, searching = false, terminate = false;
    int reportsForwarded = 0;
};
void HelperHandler::initSearch(const Position& pos, const std::vector<U64>& l, int sz, bool clr, int wc) { fib::noteRead(1); n.comm->sendInitSearch(pos, l, sz, clr, wc); n.jobId = -1; }
void HelperHandler::startSearch(int jobId, const SearchTreeInfo& sti, int alpha, int beta, int depth) { fib::noteRead(2 + 16 * (uint64_t)(jobId + 1)); n.comm->sendStartSearch(jobId, sti, alpha, beta, depth); n.jobId = jobId; n.hasResult = false; }
void HelperHandler::stopSearch() { fib::noteRead(3); n.comm->sendStopSearch(); n.jobId = -1; }
void HelperHandler::reportResult(int jobId, int score) { fib::noteRead(4 + 16 * (uint64_t)(jobId + 1)); if (!n.hasResult && n.jobId == jobId) { n.comm->sendReportResult(jobId, score); n.hasResult = true; n.reportsForwarded++; } }
void HelperHandler::stopAck() { fib::noteRead(5); n.comm->sendStopAck(true); }

struct RootHandler : public Communicator::CommandHandler {       // = the Handler in EngineMainThread::doSearch (+ result bookkeeping of Search)
    Communicator* comm; int results = 0, staleResults = 0, curJob = -1;
    void stopAck() override { fib::noteRead(5); comm->sendStopAck(true); }
    void reportResult(int jobId, int) override { fib::noteRead(4 + 16 * (uint64_t)(jobId + 1)); if (jobId == curJob) results++; else staleResults++; }
};

static std::vector<std::unique_ptr<Node>> nodes;
static TranspositionTable* gTT;

/** Notifier::wait() for a fiber: blocked (not enabled) until the flag is set, then the flag is consumed. */
static void waitNotifier(Node& n, uint64_t tag) {
    n.waiting = true;
    fib::point();
    n.waiting = false;
    n.notifier.notified = false;
    fib::resetLocal(tag);      // local state = position in the message loop (tag); what is learnt from here on is announced by the handlers
}

static std::string treeStr(const std::vector<int>& parent) { std::string s; for (size_t i = 1; i < parent.size(); i++) s += (i > 1 ? "," : "") + std::to_string(parent[i]); return s; }

static void exploreTree(const std::vector<int>& parent, int nSearches, bool reports, long maxSched) {
    const int n = (int)parent.size();
    Position startPos = TextIO::readFEN(TextIO::startPosFEN);
    std::vector<U64> noHist;
    SearchTreeInfo sti;
    std::string violationsThisRun;
    RootHandler* rootH = nullptr;
    int phase = 0;
    fib::Explorer ex;
    ex.maxSchedules = (size_t)maxSched;
    ex.stop = [&]() { return W->dl.hit(); };
    auto checkIdle = [&](const std::string& where) {
        std::string bad;
        for (int i = 0; i < n; i++) {
            Node& nd = *nodes[(size_t)i];
            if (i > 0 && nd.jobId != -1) bad += "helper" + std::to_string(i) + ":still-holds-job ";
            if (i > 0 && nd.searching) bad += "helper" + std::to_string(i) + ":still-searching ";
            if (!nd.comm->hasStopAck()) bad += "node" + std::to_string(i) + ":stop-not-acknowledged ";
            int q = 0; for (auto& c : nd.comm->cmdQueue) if (c->type == Communicator::START_SEARCH || c->type == Communicator::STOP_SEARCH || c->type == Communicator::REPORT_RESULT || c->type == Communicator::STOP_ACK) q++;
            if (q) bad += "node" + std::to_string(i) + ":search-commands-left-in-mailbox ";
        }
        if (!bad.empty()) violationsThisRun += where + " " + bad + "; ";
    };
    ex.setup = [&]() {
        lockDepth = 0; phase = 0; violationsThisRun.clear();
        nodes.clear();     // children before parents would be cleaner, but ~Communicator only unlinks from a parent that is destroyed later: destroy in reverse
        static std::vector<std::unique_ptr<Node>> graveyard;
        for (int i = 0; i < n; i++) { nodes.push_back(std::unique_ptr<Node>(new Node)); }
        for (int i = 0; i < n; i++) nodes[(size_t)i]->comm.reset(new ThreadCommunicator(i == 0 ? nullptr : nodes[(size_t)parent[(size_t)i]]->comm.get(), *gTT, nodes[(size_t)i]->notifier, false));
        static RootHandler rh; rh = RootHandler(); rh.comm = nodes[0]->comm.get(); rootH = &rh;
        std::vector<std::function<void()>> bodies;
        bodies.push_back([&]() {          // engine thread: Search::iterativeDeepening announces the search, EngineMainThread::doSearch ends it
            Node& me = *nodes[0];
            for (int s = 0; s < nSearches; s++) {
                rootH->curJob = 1;        // job ids restart with every search
                me.comm->sendInitSearch(startPos, noHist, 0, false, 0);
                me.comm->sendStartSearch(1, sti, -100, 100, 3);
                phase = 2 * s + 1;
                me.comm->sendStopSearch();
                me.comm->sendStopAck(false);
                while (true) {
                    me.comm->poll(*rootH);
                    if (me.comm->hasStopAck()) break;
                    waitNotifier(me, 100 + (uint64_t)s);
                }
                phase = 2 * s + 2;
                checkIdle("after-search-" + std::to_string(s + 1));
            }
            for (int i = 1; i < n; i++) { nodes[(size_t)i]->terminate = true; nodes[(size_t)i]->notifier.notify(); }
        });
        for (int i = 1; i < n; i++) bodies.push_back([&, i]() {      // WorkerThread::mainLoop
            Node& me = *nodes[(size_t)i];
            HelperHandler h(me);
            while (true) {
                waitNotifier(me, 1);
                if (me.terminate) break;
                me.comm->poll(h);
                if (me.jobId != -1) {                                 // doSearch: search, polling the mailbox, until the job is withdrawn
                    int job = me.jobId;
                    me.searching = true;
                    bool reported = false;
                    while (true) {
                        if (reports && !reported) { reported = true; if (!me.hasResult && me.jobId == job) { me.comm->sendReportResult(job, 17); me.hasResult = true; } }
                        waitNotifier(me, 2 + 8 * (uint64_t)job);
                        if (me.terminate) break;
                        me.comm->poll(h);
                        if (me.jobId != job) break;                   // WorkerThread::shouldStop
                    }
                    me.searching = false;
                    if (me.terminate) break;
                }
                me.comm->sendStopAck(false);
            }
        });
        return bodies;
    };
    ex.enabled = [&](int i) { Node& nd = *nodes[(size_t)i]; return !nd.waiting || nd.notifier.notified; };
    ex.sharedState = [&]() {
        std::string s; s += (char)('0' + phase);
        for (int i = 0; i < n; i++) {
            Node& nd = *nodes[(size_t)i];
            s += '|'; s += (char)('a' + (nd.jobId + 1)); s += nd.hasResult ? 'R' : 'r'; s += nd.waiting ? 'W' : 'w'; s += nd.searching ? 'S' : 's'; s += nd.notifier.notified ? 'N' : 'n'; s += nd.terminate ? 'T' : 't';
            s += nd.comm->stopAckWaitSelf ? 'A' : 'a'; s += std::to_string(nd.comm->stopAckWaitChildren); s += ':';
            for (auto& c : nd.comm->cmdQueue) { s += (char)('0' + (int)c->type); s += (char)('a' + (c->jobId + 1)); }
        }
        s += "|" + std::to_string(rootH ? rootH->results : 0) + "," + std::to_string(rootH ? rootH->staleResults : 0);
        return s;
    };
    std::string tree = treeStr(parent);
    auto schedStr = [](const std::vector<int>& c) { std::string s; for (int x : c) s += (char)('0' + x); return s; };
    ex.onDeadlock = [&](const std::vector<int>& choices) {
        std::string st = ex.sharedState();
        R.violation("deadlock", "tree [" + tree + "] reports=" + std::to_string(reports) + " schedule " + schedStr(choices) + " state " + st,
                    "{\"kind\":\"schedule\",\"tree\":\"" + tree + "\",\"reports\":" + std::to_string(reports) + ",\"choices\":\"" + schedStr(choices) + "\"}");
    };
    ex.atEnd = [&](const std::vector<int>& choices) {
        if (!violationsThisRun.empty()) {
            std::string kind = violationsThisRun.substr(violationsThisRun.find(':') + 1); kind = kind.substr(0, kind.find(' '));
            R.violation("helper-not-idle:" + kind, "tree [" + tree + "] reports=" + std::to_string(reports) + " schedule " + schedStr(choices) + " : " + violationsThisRun,
                        "{\"kind\":\"schedule\",\"tree\":\"" + tree + "\",\"reports\":" + std::to_string(reports) + ",\"choices\":\"" + schedStr(choices) + "\"}");
        }
        if (rootH && rootH->staleResults) R.count("stale_results_seen_by_root");
        R.outcome("results" + std::to_string(rootH ? rootH->results : -1));
    };
    ex.explore();
    R.count("trees"); R.count("states", (long long)ex.states); R.count("transitions", (long long)ex.transitions); R.count("schedules", (long long)ex.schedules); R.count("pruned", (long long)ex.pruned);
    R.count("nontrivial", (long long)ex.states); R.maxOf("max_points_per_schedule", (long long)ex.maxPoints);
    if (ex.capped) { R.exhaustive = false; R.count("capped_trees"); }
    if (R.samples.size() < 4) R.sampleStr("tree parents [" + tree + "] reports=" + std::to_string(reports) + " schedules=" + std::to_string(ex.schedules) + " states=" + std::to_string(ex.states));
    nodes.clear();
}

int main(int argc, char** argv) {
    Worker w(argc, argv); W = &w;
    br::initTexel();
    TranspositionTable tt(512); gTT = &tt;
    R.part = w.args.get("part", "acktree");
    int maxN = (int)w.args.getInt("nodes", 4), nSearches = (int)w.args.getInt("searches", 2);
    long maxSched = w.args.getInt("maxsched", 0);
    if (w.args.has("replay")) { fprintf(stderr, "replay: re-run the part; trees and schedules are deterministic\n"); w.finish(R); return 0; }
    unsigned long long id = 0;
    for (int n = 2; n <= maxN; n++) {
        std::vector<int> parent((size_t)n, 0);
        while (true) {
            // canonical form: parents non-decreasing (every rooted tree shape has such a labelling)
            bool canon = true; for (int i = 2; i < n; i++) if (parent[(size_t)i] < parent[(size_t)i - 1]) canon = false;
            if (canon) for (int rep = 0; rep < 2; rep++) {
                if (!w.mine(id++)) continue;
                W->crumb("tree " + treeStr(parent) + " reports=" + std::to_string(rep));
                exploreTree(parent, nSearches, rep == 1, maxSched);
                if (w.dl.hit()) { R.exhaustive = false; break; }
            }
            int k = n - 1; while (k >= 1 && ++parent[(size_t)k] >= k) { parent[(size_t)k] = 0; k--; }
            if (k < 1) break;
        }
    }
    R.count("evaluations", R.counters["schedules"]);
    w.finish(R);
    return 0;
}

// C19: book-builder graph scores stay at their defined fixed point.
// Breadth-first search over operation histories on a real BookBuild::Book (state = history replayed on a fresh object,
// deduplicated by a canonical key of the primary data); in every state a from-scratch reference recomputes links, depth,
// negamax, expansion costs and path errors on the whole graph and compares with the values the real nodes hold.
#include "harness/common.hpp"
#include "harness/bridge.hpp"
#include "bookbuild.hpp"
#include "gametree.hpp"
#include <sys/syscall.h>
#include <unordered_set>
#include <climits>

using namespace vh;
typedef BookBuild::Book BBook;
using BookBuild::BookNode; using BookBuild::IGNORE_SCORE; using BookBuild::INVALID_SCORE;
static Result R;
static Worker* W;

struct Op { char kind; int node; int a; int b; };   // A add(node, move) | S setres(node, score, bestKind) | P pending toggle(node) | F save/load | I import(tree)
static std::string opStr(const Op& o) {
    return std::string(1, o.kind) + std::to_string(o.node) + "." + std::to_string(o.a) + "." + std::to_string(o.b);
}
static std::string histStr(const std::vector<Op>& h) { std::string s; for (auto& o : h) { if (!s.empty()) s += ' '; s += opStr(o); } return s; }

static std::vector<std::string> MOVES;      // SAN alphabet
static std::vector<int> SCORES;

struct NodeInfo { U64 hash; Position pos; int order; };

/** A real book plus the harness-side knowledge of which position each node is. */
struct World {
    std::unique_ptr<BBook> book;
    std::vector<NodeInfo> nodes;            // in creation order (index = node number used by ops)
    std::map<U64, int> byHash;
    std::set<U64> pending;
    World() {
        book.reset(new BBook("", 100, 200, 50));
        Position sp = TextIO::readFEN(TextIO::startPosFEN);
        add(sp);
    }
    void add(const Position& p) { U64 h = p.bookHash(); if (byHash.count(h)) return; byHash[h] = (int)nodes.size(); nodes.push_back(NodeInfo{h, p, (int)nodes.size()}); }
    /** re-derive node list after import (new nodes in deterministic order: sorted by hash) */
};

static int memfd = -1;
static std::string memPath;

static bool legalMoveBySan(Position& pos, const std::string& san, Move& m) {
    m = TextIO::stringToMove(pos, san);
    return !m.isEmpty();
}

/** Apply one op; returns false if the op is not enabled in this state (nothing changed). */
static bool applyOp(World& w, const Op& o) {
    BBook& book = *w.book;
    if (o.kind == 'F') {
        book.writeToFile(memPath);
        std::stringstream sink; std::streambuf* old = std::cout.rdbuf(sink.rdbuf());
        book.readFromFile(memPath);
        std::cout.rdbuf(old);
        w.pending.clear();
        return true;
    }
    if (o.node < 0 || o.node >= (int)w.nodes.size()) return false;
    NodeInfo& n = w.nodes[o.node];
    BookNode* bn = book.getBookNode(n.hash);
    if (!bn) return false;
    if (o.kind == 'A') {
        if (o.a >= (int)MOVES.size()) return false;
        Position pos(n.pos); Move m;
        if (!legalMoveBySan(pos, MOVES[o.a], m)) return false;
        Position child(pos); UndoInfo ui; child.makeMove(m, ui);
        if (book.getBookNode(child.bookHash())) return false;
        std::vector<U64> toSearch;
        book.addPosToBook(pos, m, toSearch);
        w.add(child);
        return true;
    }
    if (o.kind == 'S') {
        int score = SCORES[o.a];
        Position pos(n.pos);
        Move best;
        if (o.b == 0) {
            // "no non-book move": valid only if every legal move is a book node with a valid score; then searchScore = IGNORE_SCORE
            MoveList ml; MoveGen::pseudoLegalMoves(pos, ml); MoveGen::removeIllegal(pos, ml);
            if (ml.size == 0) return false;
            for (int i = 0; i < ml.size; i++) {
                auto it = bn->getChildren().find(ml[i].getCompressedMove());
                if (it == bn->getChildren().end() || it->second->getNegaMaxScore() == INVALID_SCORE) return false;
            }
            if (o.a != 0) return false;   // one variant only
            score = IGNORE_SCORE;
        } else if (o.b == 1) {
            // best move is a non-book move: first alphabet move that is legal here and not a child, else any legal non-child move
            bool found = false;
            for (auto& s : MOVES) { Move m; Position p2(pos); if (legalMoveBySan(p2, s, m) && !bn->getChildren().count(m.getCompressedMove())) { best = m; found = true; break; } }
            if (!found) {
                MoveList ml; MoveGen::pseudoLegalMoves(pos, ml); MoveGen::removeIllegal(pos, ml);
                for (int i = 0; i < ml.size && !found; i++) if (!bn->getChildren().count(ml[i].getCompressedMove())) { best = ml[i]; found = true; }
            }
            if (!found) return false;
        } else {
            // best move is a book move (search covered a child whose score was still invalid): first child
            if (bn->getChildren().empty()) return false;
            best.setFromCompressed(bn->getChildren().begin()->first);
        }
        bn->setSearchResult(book.bookData, best, score, 1000 + o.a);
        return true;
    }
    if (o.kind == 'P') {
        if (w.pending.count(n.hash)) { book.removePending(n.hash); w.pending.erase(n.hash); }
        else { book.addPending(n.hash); w.pending.insert(n.hash); }
        return true;
    }
    if (o.kind == 'I') {
        // import a small game tree rooted at the start position: trees over the alphabet, index a
        static const std::vector<std::vector<std::string>> TREES = {
            {"e3", "e6"}, {"e4", "e5"}, {"e3", "e5", "e4"},
        };
        if (o.a >= (int)TREES.size() || o.node != 0) return false;
        GameTree gt;
        std::vector<Move> mv; Position p = TextIO::readFEN(TextIO::startPosFEN); UndoInfo ui;
        for (auto& s : TREES[o.a]) { Move m; if (!legalMoveBySan(p, s, m)) return false; mv.push_back(m); p.makeMove(m, ui); }
        gt.insertMoves(mv);
        GameNode gn = gt.getRootNode();
        int nAdded = 0;
        book.addToBook(10, gn, nAdded);
        if (nAdded == 0) return false;
        Position q = TextIO::readFEN(TextIO::startPosFEN);
        for (auto& m : mv) { q.makeMove(m, ui); w.add(q); }
        return true;
    }
    return false;
}

// ---------------------------------------------------------------- reference model (from scratch)
struct Ref {
    std::vector<std::map<U16,int>> children;        // node -> (move -> child index)
    std::vector<std::set<std::pair<U16,int>>> parents;
    std::vector<int> depth, nm, ecW, ecB, peW, peB;
};

static int refNegate(int s) {
    if (s == IGNORE_SCORE || s == INVALID_SCORE) return s;
    if (SearchConst::isWinScore(s)) return -(s - 1);
    if (SearchConst::isLoseScore(s)) return -(s + 1);
    return -s;
}

static void computeRef(World& w, Ref& r, std::string& err) {
    BBook& book = *w.book;
    size_t N = w.nodes.size();
    r.children.assign(N, {}); r.parents.assign(N, {});
    for (size_t i = 0; i < N; i++) {
        Position p(w.nodes[i].pos);
        MoveList ml; MoveGen::pseudoLegalMoves(p, ml); MoveGen::removeIllegal(p, ml);
        for (int k = 0; k < ml.size; k++) {
            UndoInfo ui; p.makeMove(ml[k], ui);
            auto it = w.byHash.find(p.bookHash());
            if (it != w.byHash.end() && book.getBookNode(p.bookHash())) { r.children[i][ml[k].getCompressedMove()] = it->second; r.parents[it->second].insert({ml[k].getCompressedMove(), (int)i}); }
            p.unMakeMove(ml[k], ui);
        }
    }
    // depth = BFS distance from the root (node 0)
    r.depth.assign(N, INT_MAX); r.depth[0] = 0;
    std::vector<int> q = {0};
    for (size_t h = 0; h < q.size(); h++) for (auto& e : r.children[q[h]]) if (r.depth[e.second] == INT_MAX) { r.depth[e.second] = r.depth[q[h]] + 1; q.push_back(e.second); }
    // negamax (DAG: memoised recursion)
    r.nm.assign(N, INT_MIN);
    std::function<int(int)> nmOf = [&](int i) -> int {
        if (r.nm[i] != INT_MIN) return r.nm[i];
        BookNode* bn = book.getBookNode(w.nodes[i].hash);
        int ss = bn->getSearchScore();
        int v;
        if (ss == INVALID_SCORE) v = INVALID_SCORE;
        else {
            v = ss;
            auto it = r.children[i].find(bn->getBestNonBookMove().getCompressedMove());
            if (it != r.children[i].end() && nmOf(it->second) != INVALID_SCORE) v = IGNORE_SCORE;  // a child covers that move
            for (auto& e : r.children[i]) v = std::max(v, refNegate(nmOf(e.second)));
        }
        return r.nm[i] = v;
    };
    for (size_t i = 0; i < N; i++) nmOf((int)i);
    // expansion costs
    const int k1 = 200, k2 = 50, k3 = 100;
    r.ecW.assign(N, INT_MIN); r.ecB.assign(N, INT_MIN);
    std::function<int(int,bool)> ecOf = [&](int i, bool white) -> int {
        std::vector<int>& memo = white ? r.ecW : r.ecB;
        if (memo[i] != INT_MIN) return memo[i];
        BookNode* bn = book.getBookNode(w.nodes[i].hash);
        int ss = bn->getSearchScore();
        bool wtm = r.depth[i] % 2 == 0;
        int k = (wtm == white) ? k1 : k2;
        bool haveOwn = false; int own = 0; bool invalid = false;
        if (!w.pending.count(w.nodes[i].hash)) {
            if (ss == INVALID_SCORE) invalid = true;
            else if (ss != IGNORE_SCORE) {
                haveOwn = true;
                if (r.children[i].count(bn->getBestNonBookMove().getCompressedMove())) own = -10000;   // obsoleted by a child node
                else own = k * (r.nm[i] - ss);
            }
        }
        for (auto& e : r.children[i]) if (ecOf(e.second, white) == INVALID_SCORE) invalid = true;
        int res;
        if (invalid) res = INVALID_SCORE;
        else {
            bool any = haveOwn; int best = own;
            for (auto& e : r.children[i]) {
                int c = ecOf(e.second, white);
                if (c == IGNORE_SCORE) continue;
                int moveError = (r.nm[i] == INVALID_SCORE) ? 1000 : r.nm[i] - refNegate(r.nm[e.second]);
                int cost = c + k3 + moveError * k;
                if (!any || cost < best) { best = cost; any = true; }
            }
            res = any ? best : IGNORE_SCORE;
        }
        return memo[i] = res;
    };
    for (size_t i = 0; i < N; i++) { ecOf((int)i, true); ecOf((int)i, false); }
    // path errors: root 0/0; node: independent minima over parents with valid path errors and valid negamax on both ends
    r.peW.assign(N, INT_MIN); r.peB.assign(N, INT_MIN);
    std::function<void(int)> peOf = [&](int i) {
        if (r.peW[i] != INT_MIN) return;
        if (i == 0) { r.peW[i] = 0; r.peB[i] = 0; return; }
        r.peW[i] = INVALID_SCORE; r.peB[i] = INVALID_SCORE;   // provisional (DAG: no cycles)
        int bw = INT_MAX, bb = INT_MAX;
        for (auto& pr : r.parents[i]) {
            int p = pr.second; peOf(p);
            int ew = r.peW[p], eb = r.peB[p];
            if (ew == INVALID_SCORE || eb == INVALID_SCORE) continue;
            if (r.nm[i] == INVALID_SCORE || r.nm[p] == INVALID_SCORE) continue;
            int delta = r.nm[p] - refNegate(r.nm[i]);
            if (r.depth[i] % 2 != 0) ew += delta; else eb += delta;
            bw = std::min(bw, ew); bb = std::min(bb, eb);
        }
        if (bw == INT_MAX || bb == INT_MAX) { r.peW[i] = INVALID_SCORE; r.peB[i] = INVALID_SCORE; }
        else { r.peW[i] = bw; r.peB[i] = bb; }
    };
    for (size_t i = 0; i < N; i++) peOf((int)i);
    (void)err;
}

static std::string canonKey(World& w) {
    std::vector<std::string> v;
    for (auto& n : w.nodes) {
        BookNode* bn = w.book->getBookNode(n.hash);
        if (!bn) continue;
        char buf[96];
        snprintf(buf, sizeof buf, "%016llx:%d:%d:%d", (unsigned long long)n.hash, (int)bn->getSearchScore(), (int)bn->getBestNonBookMove().getCompressedMove(), (int)w.pending.count(n.hash));
        v.push_back(buf);
    }
    std::sort(v.begin(), v.end());
    std::string k; for (auto& s : v) { k += s; k += ';'; }
    return k;
}

static std::string derivedKey(World& w) {
    std::vector<std::string> v;
    for (auto& n : w.nodes) {
        BookNode* bn = w.book->getBookNode(n.hash);
        if (!bn) continue;
        char buf[160];
        snprintf(buf, sizeof buf, "%016llx:%d:%d:%d:%d:%d:%d:%zu:%zu", (unsigned long long)n.hash, bn->getDepth(), bn->getNegaMaxScore(), bn->getExpansionCostWhite(), bn->getExpansionCostBlack(),
                 bn->getPathErrorWhite(), bn->getPathErrorBlack(), bn->getChildren().size(), bn->getParents().size());
        v.push_back(buf);
    }
    std::sort(v.begin(), v.end());
    std::string k; for (auto& s : v) { k += s; k += ';'; }
    return k;
}

/** Check every invariant in this state. */
static void checkState(World& w, const std::vector<Op>& hist) {
    Ref r; std::string err;
    computeRef(w, r, err);
    auto rep = [&]() { return "{\"kind\":\"ops\",\"history\":\"" + histStr(hist) + "\"}"; };
    bool multiParent = false;
    if (w.book->bookNodes.size() != w.nodes.size()) R.violation("node-count", histStr(hist), rep());
    for (size_t i = 0; i < w.nodes.size(); i++) {
        BookNode* bn = w.book->getBookNode(w.nodes[i].hash);
        if (!bn) { R.violation("node-missing", histStr(hist), rep()); continue; }
        std::string where = histStr(hist) + " node " + std::to_string(i) + " (" + TextIO::toFEN(w.nodes[i].pos) + ")";
        // links
        std::map<U16,int> ch;
        for (auto& e : bn->getChildren()) { auto it = w.byHash.find(e.second->getHashKey()); ch[e.first] = it == w.byHash.end() ? -1 : it->second; }
        if (ch != r.children[i]) R.violation("children-links", where, rep());
        std::set<std::pair<U16,int>> pa;
        for (auto& e : bn->getParents()) { auto it = w.byHash.find(e.parent->getHashKey()); pa.insert({e.compressedMove, it == w.byHash.end() ? -1 : it->second}); }
        if (pa != r.parents[i]) R.violation("parent-links", where, rep());
        if (pa.size() >= 2) multiParent = true;
        // symmetric
        for (auto& e : bn->getChildren()) { bool ok = false; for (auto& p : e.second->getParents()) if (p.parent == bn && p.compressedMove == e.first) ok = true; if (!ok) R.violation("link-asymmetry", where, rep()); }
        if (bn->getDepth() != r.depth[i]) R.violation("depth", where + " real " + std::to_string(bn->getDepth()) + " ref " + std::to_string(r.depth[i]), rep());
        if (bn->getNegaMaxScore() != r.nm[i]) R.violation("negamax", where + " real " + std::to_string(bn->getNegaMaxScore()) + " ref " + std::to_string(r.nm[i]), rep());
        if (bn->getExpansionCostWhite() != r.ecW[i] || bn->getExpansionCostBlack() != r.ecB[i])
            R.violation("expansion-cost", where + " real " + std::to_string(bn->getExpansionCostWhite()) + "/" + std::to_string(bn->getExpansionCostBlack()) + " ref " + std::to_string(r.ecW[i]) + "/" + std::to_string(r.ecB[i]), rep());
        if (bn->getPathErrorWhite() != r.peW[i] || bn->getPathErrorBlack() != r.peB[i])
            R.violation("stale-path-error", where + " real " + std::to_string(bn->getPathErrorWhite()) + "/" + std::to_string(bn->getPathErrorBlack()) + " ref " + std::to_string(r.peW[i]) + "/" + std::to_string(r.peB[i]), rep());
    }
    if (multiParent) R.count("nontrivial");
}

static World* build(const std::vector<Op>& hist) {
    World* w = new World();
    for (auto& o : hist) if (!applyOp(*w, o)) { delete w; return nullptr; }
    return w;
}

static std::vector<Op> enabledOps(World& w, bool withFile, bool withImport) {
    std::vector<Op> ops;
    int N = (int)w.nodes.size();
    for (int n = 0; n < N; n++) for (int m = 0; m < (int)MOVES.size(); m++) ops.push_back(Op{'A', n, m, 0});
    for (int n = 0; n < N; n++) for (int s = 0; s < (int)SCORES.size(); s++) for (int b = 0; b < 3; b++) ops.push_back(Op{'S', n, s, b});
    for (int n = 0; n < N; n++) ops.push_back(Op{'P', n, 0, 0});
    if (withFile) ops.push_back(Op{'F', 0, 0, 0});
    if (withImport) for (int t = 0; t < 3; t++) ops.push_back(Op{'I', 0, t, 0});
    return ops;
}

static std::vector<Op> parseHist(const std::string& s) {
    std::vector<Op> h; std::istringstream is(s); std::string t;
    while (is >> t) { Op o; o.kind = t[0]; sscanf(t.c_str() + 1, "%d.%d.%d", &o.node, &o.a, &o.b); h.push_back(o); }
    return h;
}

int main(int argc, char** argv) {
    Worker w(argc, argv); W = &w;
    br::initTexel();
    std::string part = w.args.get("part", "empty");
    R.part = part;
    memfd = (int)syscall(SYS_memfd_create, "bookfile", 0);
    memPath = "/proc/self/fd/" + std::to_string(memfd);
    int depth = (int)w.args.getInt("depth", 4);
    std::string alpha = w.args.get("alpha", "small");
    if (alpha == "small") { MOVES = {"e3", "e4", "e6", "e5"}; SCORES = {-50, 0, 30}; }
    else if (alpha == "medium") { MOVES = {"e3", "e4", "d3", "e6", "e5", "d6"}; SCORES = {-50, 0, 30, SearchConst::MATE0 - 4, -(SearchConst::MATE0 - 3)}; }
    else { MOVES = {"e3", "e4", "d3", "Nf3", "e6", "e5", "d6", "Nf6"}; SCORES = {-50, 0, 30, 100, SearchConst::MATE0 - 4, -(SearchConst::MATE0 - 3)}; }
    if (part == "forced") { MOVES = {"e4", "f6", "Qh5+", "g6", "Qxg6+"}; }
    if (part == "twins") { MOVES = {"e3", "Nf3", "e6", "d6"}; }
    if (part == "longpath") { MOVES = {"e3", "e4", "e6", "e5", "d3", "d6"}; }
    bool withFile = w.args.getInt("file", 1) != 0, withImport = w.args.getInt("import", 0) != 0;

    if (w.args.has("replay")) {
        std::string txt = readFile(w.args.get("replay"));
        std::vector<Op> h = parseHist(jsonGetStr(txt, "history"));
        World* wd = build(h);
        if (!wd) { fprintf(stderr, "replay: history not enabled\n"); return 2; }
        checkState(*wd, h);
        delete wd; w.finish(R); return 0;
    }

    // initial histories ("start from non-initial states too")
    std::vector<Op> prefix;
    if (part == "forced") {
        // 1.e4 f6 2.Qh5+ g6 : after Qh5+ the only legal move is g6; give every node a score so that IGNORE_SCORE becomes a valid result
        prefix = parseHist("A0.0.0 A1.1.0 A2.2.0 A3.3.0 S4.1.1 S3.0.0 S2.1.1 S1.1.1 S0.1.1");
    } else if (part == "longpath") {
        // 1.e3 e6 2.e4 e5 reaches at depth 4 the position that 1.e4 e5 reaches at depth 2; it already has two levels of descendants (3.d3 d6)
        // when the short path is added: the depth reduction has to reach the grandchildren
        prefix = parseHist("A0.0.0 A1.2.0 A2.1.0 A3.3.0 A4.4.0 A5.5.0 S6.1.1 S5.1.1 S4.1.1 S3.1.1 S2.1.1 S1.1.1 S0.1.1");
    } else if (part == "twins") {
        // 1.e3 e6 2.Nf3 and 1.Nf3 e6 2.e3: the same placement with half-move clocks 1 and 0, i.e. two DIFFERENT book nodes (the clock is part of the book
        // hash) from which the same move (...d6, a pawn move, clock 0) leads to the same child: one node, two parents, equal move
        prefix = parseHist("A0.0.0 A0.1.0 A1.2.0 A2.2.0 A3.1.0 A4.0.0 S5.1.1 S6.1.1 S3.1.1 S4.1.1 S1.1.1 S2.1.1 S0.1.1");
    } else if (part == "diamond") {
        // e3/e4 reach the same position after ...e6/...e5 with different path lengths and several parents
        // (move indices depend on the alphabet in use: look the four moves up by name)
        auto mi = [&](const char* n) { for (size_t i = 0; i < MOVES.size(); i++) if (MOVES[i] == n) return std::to_string(i); fprintf(stderr, "diamond: move %s not in the alphabet\n", n); exit(2); };
        prefix = parseHist("A0." + mi("e3") + ".0 A0." + mi("e4") + ".0 A1." + mi("e6") + ".0 A2." + mi("e5") + ".0 S0.1.1 S1.1.1 S2.1.1");
    }
    {
        World* p = build(prefix);
        if (!p) { fprintf(stderr, "prefix not enabled\n"); return 2; }
        checkState(*p, prefix);
        delete p;
    }

    // BFS; level-1 successors of the prefix state are distributed over the workers, each worker then searches its share
    // with a local visited set (duplicates across workers cost time, not soundness).
    std::unordered_set<std::string> seen;
    std::vector<std::vector<Op>> frontier = {prefix};
    bool cut = false;
    const int splitDepth = (int)w.args.getInt("split", 2);
    for (int d = 1; d <= depth && !cut; d++) {
        std::vector<std::vector<Op>> next;
        // levels <= splitDepth are walked by every worker (results counted by worker 0 only); the frontier of level
        // splitDepth is then dealt round-robin and each worker searches its share with a local visited set.
        bool shared = d <= splitDepth;
        if (d == splitDepth + 1) {
            std::vector<std::vector<Op>> mineF;
            for (size_t i = 0; i < frontier.size(); i++) if (w.mine(i)) mineF.push_back(frontier[i]);
            frontier.swap(mineF);
        }
        Result scratch;
        for (auto& h : frontier) {
            World* base = build(h);
            if (!base) { R.violation("replay-diverged", histStr(h), "{}"); continue; }
            std::vector<Op> ops = enabledOps(*base, withFile, withImport);
            delete base;
            for (auto& o : ops) {
                std::vector<Op> h2 = h; h2.push_back(o);
                World* wd = build(h2);
                if (!wd) continue;
                bool counted = !shared || w.idx == 0;
                if (counted) R.count("transitions");
                if ((R.counters["transitions"] & 255) == 0) W->crumb(histStr(h2));
                std::string key = canonKey(*wd);
                if (o.kind == 'F') {
                    // save/load must reproduce the graph and all derived values of the same history without pending marks
                    std::string dk = derivedKey(*wd);
                    World* np = build(h); // the state before saving
                    std::set<U64> pend = np->pending;
                    for (U64 hk : pend) { np->book->removePending(hk); np->pending.erase(hk); }
                    if (canonKey(*np) != key) R.violation("saveload-primary-data-differs", histStr(h2), "{\"kind\":\"ops\",\"history\":\"" + histStr(h2) + "\"}");
                    if (derivedKey(*np) != dk) R.violation("saveload-derived-values-differ", histStr(h2) + " reloaded " + dk + " vs live " + derivedKey(*np), "{\"kind\":\"ops\",\"history\":\"" + histStr(h2) + "\"}");
                    delete np;
                    if (counted) R.count("saveloads");
                }
                if (seen.insert(key).second) {
                    if (counted) R.count("states");
                    if (counted) checkState(*wd, h2);
                    // canon-on-replay: a second construction must give the same primary and derived data
                    if ((R.counters["states"] & 63) == 0) { World* w2 = build(h2); if (!w2 || canonKey(*w2) != key || derivedKey(*w2) != derivedKey(*wd)) R.violation("replay-nondeterministic", histStr(h2), "{}"); delete w2; }
                    if (R.samples.size() < 3 && d >= 3 && (R.counters["states"] % 1000) == 1) R.sampleStr(histStr(h2));
                    if (d < depth) next.push_back(h2);
                }
                delete wd;
                if (w.dl.hit()) { cut = true; break; }
            }
            if (cut) break;
        }
        R.maxOf("bfs_depth_completed", cut ? d - 1 : d);
        frontier.swap(next);
    }
    if (cut) R.exhaustive = false;
    w.finish(R);
    return 0;
}

// C04: announced mates are real.
// Depth-limited searches (the search's own mate bookkeeping; no tablebase probing) on every KQK/KRK/... position with the
// white king in the symmetry triangle x depth x table size x null-move, judged against exact distance to mate; plus
// positions of the seed trees in which the independent AND/OR solver finds a forced mate in <= 2 (3) moves.
#include "harness/common.hpp"
#include "harness/searchdrv.hpp"
#include "oracle/universes.hpp"
#include "tbgen.hpp"

using namespace vh;
static Result R;
static Worker* W;
static const int M0 = SearchConst::MATE0;

struct Val { int kind; int n; };
static Val toVal(int s) { if (s == 0) return {0, 0}; if (s > 0) return {1, (M0 - s) / 2}; return {-1, (M0 + s - 1) / 2}; }

typedef std::function<int(const Position&, int)> MateOracle;  // (pos, N): 1 = side to move can force mate within N moves, 0 = cannot, -1 = unknown
typedef std::function<int(const Position&, int)> LossOracle;  // (pos, N): 1 = side to move is mated within N moves whatever it does, 0 = not, -1 unknown

static void judge(sd::Env& env, Position& pos, int depth, const std::string& cfg, const MateOracle& canMateRaw, const LossOracle& isLost, bool mateInOneExists) {
    std::string fen = TextIO::toFEN(pos);
    std::map<int, int> memo;   // the same claim is usually repeated by every iteration
    auto canMate = [&](const Position& p, int N) { auto it = memo.find(N); if (it != memo.end()) return it->second; int r = canMateRaw(p, N); memo[N] = r; return r; };
    MoveList lm; MoveGen::pseudoLegalMoves(pos, lm); MoveGen::removeIllegal(pos, lm);
    if (lm.size == 0) return;
    W->crumb(cfg + " d" + std::to_string(depth) + " " + fen);
    // depth < 0: search without depth / node limit (the path that builds and consults the on-demand tablebase), ended by the counting stop handler
    sd::Params p; p.maxDepth = depth; p.minProbeDepth = 100;
    if (depth < 0) { p = sd::Params(); p.maxDepth = -1; p.maxNodes = -1; p.stopAfterPolls = (int)W->args.getInt("polls", 3); }
    sd::Outcome o = sd::run(env, pos, p);
    R.count("states");
    R.count("transitions", (long long)o.lines.size());
    auto rep = [&]() { return "{\"kind\":\"input\",\"cfg\":\"" + cfg + "\",\"depth\":" + std::to_string(depth) + ",\"fen\":\"" + jsonEsc(fen) + "\"}"; };
    if (o.lines.empty()) { R.violation("no-pv-line", cfg + " " + fen, rep()); return; }
    bool anyMate = false;
    for (auto& l : o.lines) {
        if (!l.isMate) continue;
        anyMate = true;
        if (l.score > 0 && !l.upper) {
            // exact or lower bound "mate N": the side to move can force mate within N of its own moves
            int r = canMate(pos, l.score);
            if (r == 0) R.violation("false-mate-announcement", cfg + " depth " + std::to_string(depth) + " " + fen + " line depth " + std::to_string(l.depth) + " mate " + std::to_string(l.score) + (l.lower ? " lowerbound" : ""), rep());
            else if (r < 0) R.count("unverified_mate_claims");
            else R.count("verified_mate_claims");
        }
    }
    const sd::PVLine* finp = depth < 0 ? o.finalCompleted() : &o.lines.back();
    if (!finp) { R.count("no_completed_iteration"); return; }
    const sd::PVLine& fin = *finp;
    if (anyMate) R.count("nontrivial");
    // best move delivered with a winning mate score keeps a forced mate
    if (fin.isMate && fin.score > 0 && !fin.upper) {
        bool legal = false; for (int i = 0; i < lm.size; i++) if (lm[i] == o.best) legal = true;
        if (!legal) R.violation("bestmove-illegal", cfg + " " + fen, rep());
        else {
            UndoInfo ui; Position after(pos); after.makeMove(o.best, ui);
            MoveList l2; MoveGen::pseudoLegalMoves(after, l2); MoveGen::removeIllegal(after, l2);
            bool mated = l2.size == 0 && MoveGen::inCheck(after);
            int r = mated ? 1 : isLost(after, fin.score - 1);
            if (r == 0) r = isLost(after, 1000);   // the property only demands that a forced mate is kept, not the announced distance
            if (r == 0) R.violation("best-move-loses-the-mate", cfg + " depth " + std::to_string(depth) + " " + fen + " mate " + std::to_string(fin.score) + " best " + TextIO::moveToUCIString(o.best), rep());
            else if (r < 0) R.count("unverified_best_moves");
        }
    }
    // completed search ending in a losing mate score
    if (fin.isMate && fin.score < 0 && !fin.upper && !fin.lower) {
        int r = isLost(pos, -fin.score);
        if (r == 0) R.violation("false-mated-announcement", cfg + " depth " + std::to_string(depth) + " " + fen + " mate " + std::to_string(fin.score), rep());
        else if (r < 0) R.count("unverified_mated_claims");
        else R.count("verified_mated_claims");
    }
    if (mateInOneExists) {
        R.count("mate_in_one_roots");
        UndoInfo ui; Position after(pos); after.makeMove(o.best, ui);
        MoveList l2; MoveGen::pseudoLegalMoves(after, l2); MoveGen::removeIllegal(after, l2);
        bool mated = l2.size == 0 && MoveGen::inCheck(after);
        if (!(fin.isMate && fin.score == 1 && !fin.upper && !fin.lower)) R.violation("mate-in-one-not-reported", cfg + " depth " + std::to_string(depth) + " " + fen + " final " + (fin.isMate ? "mate " : "cp ") + std::to_string(fin.score), rep());
        if (!mated) R.violation("mate-in-one-not-played", cfg + " depth " + std::to_string(depth) + " " + fen + " best " + TextIO::moveToUCIString(o.best), rep());
    }
    R.outcome(cfg + (fin.isMate ? (fin.score > 0 ? ":mate+" : ":mate-") : ":cp"));
}

static PieceCount toPC(const std::vector<int>& pcs) {
    PieceCount pc{0,0,0,0,0,0,0,0};
    for (int p : pcs) switch (p) {
        case Piece::WQUEEN: pc.nwq++; break; case Piece::WROOK: pc.nwr++; break; case Piece::WBISHOP: pc.nwb++; break; case Piece::WKNIGHT: pc.nwn++; break;
        case Piece::BQUEEN: pc.nbq++; break; case Piece::BROOK: pc.nbr++; break; case Piece::BBISHOP: pc.nbb++; break; case Piece::BKNIGHT: pc.nbn++; break;
    }
    return pc;
}

int main(int argc, char** argv) {
    Worker w(argc, argv); W = &w;
    br::initTexel(); evs::check();
    std::string part = w.args.get("part", "tb");
    R.part = part;
    std::vector<int> depths; { std::istringstream is(w.args.get("depths", "1,2,3,4")); std::string t; while (std::getline(is, t, ',')) depths.push_back(atoi(t.c_str())); }
    std::vector<long> tts; { std::istringstream is(w.args.get("tt", "512,65536")); std::string t; while (std::getline(is, t, ',')) tts.push_back(atol(t.c_str())); }
    std::vector<int> nulls; { std::istringstream is(w.args.get("null", "1")); std::string t; while (std::getline(is, t, ',')) nulls.push_back(atoi(t.c_str())); }
    long stride = w.args.getInt("stride", 1);
    uni::Part P{w.idx, w.n};

    auto forConfigs = [&](const std::function<void(sd::Env&, const std::string&)>& f) {
        for (long tte : tts) for (int nm : nulls) {
            UciParams::useNullMove->set(nm ? "true" : "false");
            sd::Env env((U64)tte);
            f(env, "tt" + std::to_string(tte) + (nm ? "" : "-nonull"));
        }
        UciParams::useNullMove->set("true");
    };

    if (w.args.has("replay")) {
        std::string txt = readFile(w.args.get("replay"));
        std::string fen = jsonGetStr(txt, "fen"), cfg = jsonGetStr(txt, "cfg"); int depth = (int)jsonGetInt(txt, "depth", 2);
        Position pos = TextIO::readFEN(fen);
        orc::Board b = br::fromTexel(pos);
        MateOracle cm = [&](const Position& p, int N) { if (N > 3) return -1; return orc::canMateIn(br::fromTexel(p), N) ? 1 : 0; };
        LossOracle il = [&](const Position& p, int N) { if (N > 2) return -1; return orc::isMatedWithin(br::fromTexel(p), N) ? 1 : 0; };
        long tte = 512; if (cfg.rfind("tt", 0) == 0) tte = atol(cfg.c_str() + 2);
        if (cfg.find("nonull") != std::string::npos) UciParams::useNullMove->set("false");
        sd::Env env((U64)tte);
        judge(env, pos, depth, cfg, cm, il, orc::canMateIn(b, 1));
        w.finish(R); return 0;
    }

    if (part == "tb") {
        std::vector<std::vector<int>> classes;
        std::istringstream is(w.args.get("names", "KQvK,KRvK")); std::string n;
        while (std::getline(is, n, ',')) {
            std::vector<int> pcs; bool black = false;
            for (size_t i = 1; i < n.size(); i++) { char c = n[i]; if (c == 'v') { black = true; i++; continue; } const char* q = strchr(orc::PCH + 1, c); if (q) pcs.push_back(orc::mk(!black, (int)(q - orc::PCH))); }
            classes.push_back(pcs);
        }
        for (auto& pcs : classes) {
            std::vector<int> all = {orc::WK, orc::BK}; for (int p : pcs) all.push_back(p);
            std::string cls = uni::className(all);
            VectorStorage vs; TBGenerator<VectorStorage> gen(vs, toPC(pcs)); RelaxedShared<S64> inf(-1);
            if (!gen.generate(inf, false)) return 2;
            MateOracle cm = [&](const Position& p, int N) { int s; if (!gen.probeDTM(p, 0, s)) return -1; Val v = toVal(s); return (v.kind > 0 && v.n <= N) ? 1 : 0; };
            LossOracle il = [&](const Position& p, int N) { int s; if (!gen.probeDTM(p, 0, s)) return -1; Val v = toVal(s); return (v.kind < 0 && v.n <= N) ? 1 : 0; };
            forConfigs([&](sd::Env& env, const std::string& cfg) {
                uni::Part P1{0, 1}; unsigned long long c = 0, vcount = 0;
                uni::placeAll(all, 2, P1, [&](const orc::Board& b, unsigned long long) {
                    unsigned long long vi = vcount++;
                    if (vi % (unsigned long long)stride != 0 || !P.mine(vi / (unsigned long long)stride)) return;
                    Position pos; try { pos = TextIO::readFEN(orc::toFEN(b)); } catch (const ChessParseError&) { return; }
                    int s; if (!gen.probeDTM(pos, 0, s)) return;
                    Val v = toVal(s);
                    for (int d : depths) judge(env, pos, d, cls + "-" + cfg, cm, il, v.kind > 0 && v.n == 1);
                }, c, [&]() { return w.dl.hit(); });
            });
            if (w.dl.hit()) { R.exhaustive = false; break; }
            if (R.samples.size() < 3) R.sampleStr(cls);
        }
    } else if (part == "tbsearch") {
        // searches that consult the on-demand tablebase (no depth limit), judged by the independent AND/OR solver: every announced
        // mate distance up to maxmate is verified by exhaustive search with the oracle's move generator, nothing of texel's table is trusted
        int maxMate = (int)w.args.getInt("maxmate", 3);
        long sstride = w.args.getInt("sstride", 1), lstride = w.args.getInt("lstride", 1);
        MateOracle cm = [&](const Position& p, int N) { if (N > maxMate) return -1; return orc::canMateIn(br::fromTexel(p), N) ? 1 : 0; };
        LossOracle il = [&](const Position& p, int N) { if (N > maxMate) return -1; return orc::isMatedWithin(br::fromTexel(p), N) ? 1 : 0; };
        std::istringstream is(w.args.get("names", "KQvKN,KRvKB")); std::string n;
        while (std::getline(is, n, ',')) {
            std::vector<int> pcs; bool black = false;
            for (size_t i = 1; i < n.size(); i++) { char c = n[i]; if (c == 'v') { black = true; i++; continue; } const char* q = strchr(orc::PCH + 1, c); if (q) pcs.push_back(orc::mk(!black, (int)(q - orc::PCH))); }
            std::vector<int> all = {orc::WK, orc::BK}; for (int p : pcs) all.push_back(p);
            std::string cls = uni::className(all);
            sd::Env env(1024 * 1024);   // 16 MB: hosts the on-demand table
            // root selection only (never the verdict): a table generated by the engine's own generator tells which roots will be
            // announced as short mates; those are all searched, the rest every stride-th
            VectorStorage vs; TBGenerator<VectorStorage> gen(vs, toPC(pcs)); RelaxedShared<S64> inf(-1);
            if (!gen.generate(inf, false)) return 2;
            uni::Part P1{0, 1}; unsigned long long c = 0, vcount = 0, scount = 0, lcount = 0;
            uni::placeAll(all, 2, P1, [&](const orc::Board& b, unsigned long long) {
                unsigned long long vi = vcount++;
                Position pos; try { pos = TextIO::readFEN(orc::toFEN(b)); } catch (const ChessParseError&) { return; }
                int sc; bool shortMate = false, shortLoss = false;
                if (gen.probeDTM(pos, 0, sc)) { Val v = toVal(sc); shortMate = v.kind > 0 && v.n <= maxMate; shortLoss = v.kind < 0 && v.n <= maxMate; }
                if (shortLoss) { unsigned long long li = lcount++; if (li % (unsigned long long)lstride != 0 || !P.mine(li / (unsigned long long)lstride)) return; R.count("short_loss_roots"); }
                else if (shortMate) { unsigned long long si = scount++; if (si % (unsigned long long)sstride != 0 || !P.mine(si / (unsigned long long)sstride)) return; R.count("short_mate_roots"); }
                else if (vi % (unsigned long long)stride != 0 || !P.mine(vi / (unsigned long long)stride)) return;
                judge(env, pos, -1, cls + "-tbsearch", cm, il, false);
            }, c, [&]() { return w.dl.hit(); });
            if (w.dl.hit()) { R.exhaustive = false; break; }
            if (R.samples.size() < 3) R.sampleStr(cls + " (tablebase-backed searches)");
        }
    } else if (part == "announce") {
        // Every position of a fixed corpus of legal games (deterministic LCG walks from the initial position: kings get exposed, mating nets and
        // near-mates abound) in which the side to move has a pawn and a piece is searched to the given depths; EVERY mate announcement up to
        // maxmate is verified by the independent AND/OR solver. Roots are not pre-selected by the solver: false announcements arise exactly where
        // no short mate exists (e.g. a defence pruned away near the horizon).
        int maxMate = (int)w.args.getInt("maxmate", 3);
        int games = (int)w.args.getInt("games", 200), every = (int)w.args.getInt("every", 3);
        MateOracle cm = [&](const Position& p, int N) { if (N > maxMate) return -1; return orc::canMateIn(br::fromTexel(p), N) ? 1 : 0; };
        LossOracle il = [&](const Position& p, int N) { if (N > maxMate) return -1; return orc::isMatedWithin(br::fromTexel(p), N) ? 1 : 0; };
        std::vector<orc::Board> roots;
        unsigned long long lcg = 0x9E3779B97F4A7C15ULL; unsigned long long rid = 0;
        for (int g = 0; g < games; g++) {
            orc::Board b = orc::startPos();
            for (int ply = 0; ply < 90; ply++) {
                std::vector<orc::Mv> lm = orc::legalMoves(b);
                if (lm.empty() || orc::deadMaterial(b)) break;
                lcg = lcg * 6364136223846793005ULL + 1442695040888963407ULL;
                orc::Mv m = lm[(size_t)((lcg >> 33) % lm.size())];
                // every third move prefers a capture or a check: material comes off and kings come under fire
                if ((lcg >> 20) % 3 == 0) { std::vector<orc::Mv> sp; for (auto& x : lm) { if (orc::isCapture(b, x)) sp.push_back(x); else { orc::Board a = orc::apply(b, x); if (orc::inCheck(a, a.wtm)) sp.push_back(x); } } if (!sp.empty()) m = sp[(size_t)((lcg >> 40) % sp.size())]; }
                b = orc::normalised(orc::apply(b, m));
                if (ply >= 12 && ply % every == 0) {
                    bool pawn = false, piece = false;
                    for (int sq = 0; sq < 64; sq++) { int pc = b.sq[sq]; if (!pc || orc::isWhiteP(pc) != b.wtm) continue; int t = orc::typeOf(pc); if (t == 6) pawn = true; else if (t != 1) piece = true; }
                    if (pawn && piece && !orc::legalMoves(b).empty() && P.mine(rid++)) roots.push_back(b);
                }
            }
        }
        R.count("corpus_roots", (long long)roots.size());
        forConfigs([&](sd::Env& env, const std::string& cfg) {
            for (auto& rb : roots) {
                Position pos; try { pos = TextIO::readFEN(orc::toFEN(rb)); } catch (const ChessParseError&) { continue; }
                for (int d : depths) judge(env, pos, d, "announce-" + cfg, cm, il, false);
                if (w.dl.hit()) { R.exhaustive = false; return; }
            }
        });
        if (R.samples.size() < 3 && !roots.empty()) R.sampleStr(orc::toFEN(roots[0]));
    } else if (part == "solver") {
        // positions of the seed trees with a forced mate found by the independent AND/OR solver
        auto seeds = uni::readSeeds(w.args.get("seeds", "corpus/seeds.fen"));
        int maxMate = (int)w.args.getInt("maxmate", 2);
        int pd = (int)w.args.getInt("perft", 2);
        MateOracle cm = [&](const Position& p, int N) { if (N > maxMate + 1) return -1; return orc::canMateIn(br::fromTexel(p), N) ? 1 : 0; };
        LossOracle il = [&](const Position& p, int N) { if (N > maxMate) return -1; return orc::isMatedWithin(br::fromTexel(p), N) ? 1 : 0; };
        std::vector<std::pair<orc::Board,int>> roots;
        uni::UPERFT(seeds, pd, P, [&](const orc::Board& b, unsigned long long, int) {
            if (b.nMen() > 14 && maxMate > 1 && !orc::inCheck(b, b.wtm)) { if (orc::canMateIn(b, 1)) roots.push_back({b, 1}); return; }  // dense positions: mate in one only
            for (int n = 1; n <= maxMate; n++) if (orc::canMateIn(b, n)) { roots.push_back({b, n}); break; }
        });
        R.count("solver_roots", (long long)roots.size());
        forConfigs([&](sd::Env& env, const std::string& cfg) {
            for (auto& rt : roots) {
                Position pos; try { pos = TextIO::readFEN(orc::toFEN(rt.first)); } catch (const ChessParseError&) { continue; }
                for (int d : depths) judge(env, pos, d, "solver-" + cfg, cm, il, rt.second == 1);
                if (R.samples.size() < 3) R.sampleStr(orc::toFEN(rt.first) + " mate in " + std::to_string(rt.second));
                if (w.dl.hit()) { R.exhaustive = false; return; }
            }
        });
    } else return 2;
    R.count("evaluations", R.counters["states"]);
    w.finish(R);
    return 0;
}

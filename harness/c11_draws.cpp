// C11 (search side): draws by repetition and the 50-move rule are recognised.
// rep: for every history H (fixed irreversible prefix + ALL sequences up to length L over a reversible shuffle alphabet) of each start
//      position F, the real UCI stack gets "position fen F moves H" and, for every candidate move m and depth d, "go depth d searchmoves m";
//      the independent oracle counts occurrences (FIDE key: placement, side, castling rights, legally possible en passant): third occurrence
//      => score must be exactly cp 0.
// fifty: every KQK/KRK position (triangle) in which the side to move has a mate in one, clock 99 (and 97..99 / 90..110 families):
//      a move that completes 100 plies without mating => cp 0, a mating move => mate 1.
#include "harness/common.hpp"
#include "harness/session.hpp"
#include "harness/searchdrv.hpp"
#include "oracle/universes.hpp"

using namespace vh;
static Result R;
static Worker* W;

struct Family { std::string name, fen; std::vector<std::string> prefix; std::vector<std::string> alphabet; };

static std::vector<Family> families() {
    return {
        {"startpos-knights", "rnbqkbnr/pppppppp/8/8/8/8/PPPPPPPP/RNBQKBNR w KQkq - 0 1", {}, {"g1f3", "f3g1", "b1c3", "c3b1", "g8f6", "f6g8", "b8c6", "c6b8"}},
        {"krkr-shuffle", "8/8/4k3/8/8/4K3/R6r/8 w - - 0 1", {}, {"a2a1", "a1a2", "e3d3", "d3e3", "h2h1", "h1h2", "e6d6", "d6e6"}},
        {"castling-rights-lost", "r3k2r/8/8/8/8/8/8/R3K2R w KQkq - 0 1", {}, {"h1g1", "g1h1", "a1b1", "b1a1", "h8g8", "g8h8", "a8b8", "b8a8"}},
        {"ep-illegal-pinned", "8/8/8/8/R2p3k/8/2P5/6K1 w - - 0 1", {"c2c4"}, {"h4h5", "h5h4", "a4a3", "a3a4", "g1g2", "g2g1"}},
        {"ep-legal", "8/8/8/8/3p3k/8/R1P5/6K1 w - - 0 1", {"c2c4"}, {"h4h5", "h5h4", "a2a3", "a3a2", "g1g2", "g2g1"}},
        {"after-irreversible", "rnbqkbnr/pppppppp/8/8/8/8/PPPPPPPP/RNBQKBNR w KQkq - 0 1", {"g1f3", "g8f6", "f3g1", "f6g8", "e2e4", "e7e5"}, {"g1f3", "f3g1", "g8f6", "f6g8"}},
    };
}

static unsigned long long hid = 0;

static void runHistory(const Family& f, const std::vector<std::string>& seq, const std::vector<int>& depths) {
    unsigned long long id = hid++;
    if (!W->mine(id)) return;
    if (W->dl.hit()) { R.exhaustive = false; return; }
    // oracle replay
    orc::Board b; orc::fromFEN(f.fen, b);
    { Position p = TextIO::readFEN(f.fen); b = br::fromTexel(p); }
    std::vector<std::string> keys = {orc::repKey(b)};
    std::vector<std::string> all = f.prefix; for (auto& m : seq) all.push_back(m);
    for (auto& mv : all) {
        orc::Mv m; if (!ses::findMove(b, mv, m)) return;   // sequence not legal: not a history
        bool irreversible = orc::isCapture(b, m) || orc::typeOf(b.sq[m.from]) == 6;
        b = orc::apply(b, m);
        if (irreversible) keys.clear();
        keys.push_back(orc::repKey(b));
    }
    // candidate moves: alphabet moves legal here + the first two other legal moves
    std::vector<orc::Mv> lm = orc::legalMoves(b);
    std::vector<orc::Mv> cand;
    for (auto& m : lm) if (std::find(f.alphabet.begin(), f.alphabet.end(), orc::uci(m)) != f.alphabet.end()) cand.push_back(m);
    int extra = 0; for (auto& m : lm) if (std::find(cand.begin(), cand.end(), m) == cand.end() && extra < 2) { cand.push_back(m); extra++; }
    if (cand.empty()) return;
    std::string posCmd = "position fen " + f.fen;
    if (!all.empty()) { posCmd += " moves"; for (auto& m : all) posCmd += " " + m; }
    std::vector<std::string> script = {posCmd};
    struct Exp { std::string move; int depth; bool third; bool second; };
    std::vector<Exp> exps;
    bool anyThird = false;
    for (auto& m : cand) {
        orc::Board q = orc::apply(b, m);
        bool irreversible = orc::isCapture(b, m) || orc::typeOf(b.sq[m.from]) == 6;
        int occ = 0; if (!irreversible) { std::string k = orc::repKey(q); for (auto& x : keys) if (x == k) occ++; }
        for (int d : depths) {
            script.push_back("go depth " + std::to_string(d) + " searchmoves " + orc::uci(m));
            script.push_back("@await bestmove");
            exps.push_back(Exp{orc::uci(m), d, occ >= 2, occ == 1});
        }
        if (occ >= 2) anyThird = true;
    }
    script.push_back("quit");
    std::string sstr; for (auto& l : script) { if (!sstr.empty()) sstr += " | "; sstr += l; }
    W->crumb(sstr);
    ses::Transcript t = ses::runSession(script, 120);
    ses::Analysis an = ses::analyse(t, true);
    R.count("states"); R.count("transitions", (long long)exps.size());
    if (anyThird) R.count("nontrivial");
    std::string rep = "{\"kind\":\"ops\",\"family\":\"" + f.name + "\",\"script\":\"" + jsonEsc(sstr) + "\"}";
    for (auto& fd : an.findings) R.violation("session:" + fd.sig, f.name + " [" + posCmd + "] " + fd.detail.substr(0, 400), rep);
    if (an.gos.size() != exps.size()) { R.violation("session:go-count", f.name + " " + posCmd, rep); return; }
    for (size_t i = 0; i < exps.size(); i++) {
        const ses::GoResult& g = an.gos[i];
        // final score of this search = last info line carrying a score
        const ses::InfoLine* fin = nullptr;
        for (auto& il : g.infos) if (il.hasScore) fin = &il;
        if (!fin) { R.count("searches_without_score"); continue; }
        if (exps[i].third) {
            R.count("third_occurrence_moves");
            if (fin->isMate || fin->score != 0 || fin->upper || fin->lower)
                R.violation("third-occurrence-not-draw", f.name + " [" + posCmd + "] go depth " + std::to_string(exps[i].depth) + " searchmoves " + exps[i].move + " -> " + fin->raw, rep);
        } else if (exps[i].second) R.count("second_occurrence_moves");
        R.outcome(f.name + (exps[i].third ? ":third" : exps[i].second ? ":second" : ":first") + (fin->isMate ? ":mate" : fin->score == 0 ? ":0" : ":nonzero"));
    }
    if (R.samples.size() < 3 && anyThird) R.sampleStr(posCmd);
}

static void repetition(int maxLen, const std::vector<int>& depths) {
    for (auto& f : families()) {
        // all sequences over the alphabet up to maxLen (illegal ones are skipped inside)
        std::vector<int> idx;
        for (int len = 0; len <= maxLen; len++) {
            idx.assign(len, 0);
            // prune: enumerate by DFS with legality to avoid the 8^len blow-up
            std::function<void(orc::Board, std::vector<std::string>&)> dfs = [&](orc::Board b, std::vector<std::string>& seq) {
                if ((int)seq.size() == len) { runHistory(f, seq, depths); return; }
                for (auto& mv : f.alphabet) { orc::Mv m; if (!ses::findMove(b, mv, m)) continue; seq.push_back(mv); dfs(orc::apply(b, m), seq); seq.pop_back(); }
            };
            orc::Board b; { Position p = TextIO::readFEN(f.fen); b = br::fromTexel(p); }
            bool ok = true; for (auto& mv : f.prefix) { orc::Mv m; if (!ses::findMove(b, mv, m)) { ok = false; break; } b = orc::apply(b, m); }
            if (!ok) { R.violation("harness:bad-prefix", f.name, "{}"); break; }
            std::vector<std::string> seq; dfs(b, seq);
            if (!R.exhaustive) return;
        }
    }
}

// ---------------------------------------------------------------- 50-move rule
static void fifty(bool thorough) {
    uni::Part P{W->idx, W->n};
    sd::Env env(16384);
    std::vector<int> depths = thorough ? std::vector<int>{1, 2, 3, 5} : std::vector<int>{1, 2, 3};
    auto judge = [&](const orc::Board& b0, int hmc) {
        orc::Board b = b0; b.hmc = hmc;
        std::string fen = orc::toFEN(b);
        Position pos; try { pos = TextIO::readFEN(fen); } catch (const ChessParseError&) { return; }
        for (auto& m : orc::legalMoves(b)) {
            orc::Board q = orc::apply(b, m);
            bool mates = orc::isMate(q);
            bool irreversible = orc::isCapture(b, m) || orc::typeOf(b.sq[m.from]) == 6;
            bool hits100 = !irreversible && hmc + 1 >= 100;
            if (!hits100 && !mates) continue;
            for (int d : depths) {
                sd::Params p; p.maxDepth = d; p.minProbeDepth = 100; p.searchMoves = {br::toTexel(m)};
                sd::Outcome o = sd::run(env, pos, p);
                R.count("states"); R.count("transitions", (long long)o.lines.size());
                if (o.lines.empty()) continue;
                const sd::PVLine& fin = o.lines.back();
                std::string desc = fen + " " + orc::uci(m) + " depth " + std::to_string(d) + " -> " + (fin.isMate ? "mate " : "cp ") + std::to_string(fin.score);
                std::string rep = "{\"kind\":\"input\",\"fen\":\"" + jsonEsc(fen) + "\",\"move\":\"" + orc::uci(m) + "\"}";
                if (mates) { R.count("mating_moves"); if (!(fin.isMate && fin.score == 1)) R.violation("mate-on-the-100th-ply-not-scored-as-mate", desc, rep); }
                else { R.count("nontrivial"); if (fin.isMate || fin.score != 0 || fin.upper || fin.lower) R.violation("fifty-move-draw-not-scored-as-draw", desc, rep); }
            }
        }
    };
    // every KQK / KRK placement (white king in the triangle) where the side to move has a mate in one, clock 99
    for (int t : {orc::WQ, orc::WR, orc::BQ, orc::BR}) {
        unsigned long long c = 0;
        uni::placeAll({orc::WK, orc::BK, t}, 2, P, [&](const orc::Board& b, unsigned long long) {
            if (!orc::canMateIn(b, 1)) return;
            R.count("mate_in_one_roots");
            judge(b, 99);
            if (thorough) { judge(b, 98); judge(b, 100); }
        }, c);
    }
    // clocks 90..110 by FEN on a list of positions (crossing 99 -> 100 inside the search at depth >= 2)
    if (W->idx == 0) {
        std::vector<std::string> list = {"8/8/4k3/8/8/4K3/R6r/8 w - - 0 1", "6k1/5ppp/8/8/8/8/8/R3K3 w - - 0 1", "r1bq1rk1/pp2bppp/2n1pn2/2pp4/3P1B2/2PBPN2/PP1N1PPP/R2QK2R w - - 0 1", "7k/5Q2/8/6K1/8/8/8/8 w - - 0 1"};
        for (auto& f : list) for (int h = 90; h <= 110; h++) { orc::Board b; orc::fromFEN(f, b); judge(b, h); }
    }
}

int main(int argc, char** argv) {
    Worker w(argc, argv); W = &w;
    ses::warm();
    std::string part = w.args.get("part", "rep");
    R.part = part;
    bool thorough = w.args.get("tier", "quick") == "thorough";
    if (w.args.has("replay")) {
        std::string txt = readFile(w.args.get("replay"));
        std::string sc = jsonGetStr(txt, "script"), fam = jsonGetStr(txt, "family");
        if (!sc.empty()) {
            // re-derive the history from the position command
            size_t p = sc.find(" | "); std::string posCmd = sc.substr(0, p);
            for (auto& f : families()) if (f.name == fam) {
                std::vector<std::string> seq; size_t mp = posCmd.find(" moves ");
                if (mp != std::string::npos) { std::istringstream is(posCmd.substr(mp + 7)); std::string m; std::vector<std::string> all; while (is >> m) all.push_back(m); seq.assign(all.begin() + (long)f.prefix.size(), all.end()); }
                w.n = 1; w.idx = 0; runHistory(f, seq, {1, 2, 3, 5});
            }
        } else { w.n = 1; w.idx = 0; fifty(true); }
        w.finish(R); return 0;
    }
    if (part == "rep") repetition((int)w.args.getInt("len", 8), thorough ? std::vector<int>{1, 2, 3, 5} : std::vector<int>{1, 2, 3});
    else if (part == "fifty") fifty(thorough);
    else return 2;
    R.count("evaluations", R.counters["states"]);
    w.finish(R);
    return 0;
}

// C01: generated legal moves are exactly the legal moves of chess.
// Bounded-exhaustive enumeration of position universes; every position goes through texel's FEN reader;
// every move list / per-move verdict is compared with the independent oracle.
#include "harness/common.hpp"
#include "harness/bridge.hpp"
#include "oracle/universes.hpp"
#include "bitBoard.hpp"

using namespace vh;

static Result R;
static Worker* W;

static std::string rep(const std::string& fen) { return "{\"kind\":\"input\",\"fen\":\"" + jsonEsc(fen) + "\"}"; }

static bool nontrivialPos(const orc::Board& b, const std::vector<orc::Mv>& legal, const std::vector<orc::Mv>& pseudo) {
    if (orc::inCheck(b, b.wtm)) return true;
    if (b.ep >= 0 || b.castle) return true;
    if (legal.size() != pseudo.size()) return true; // pinned piece / king step into attack
    for (auto& m : legal) if (m.promo) return true;
    return false;
}

static void checkPosition(const orc::Board& b) {
    std::string fen = orc::toFEN(b);
    W->crumb(fen);
    R.count("evaluations");
    Position pos;
    try { pos = TextIO::readFEN(fen); }
    catch (const ChessParseError& e) { R.count("fen_rejected"); R.violation("fen-rejected", "valid position rejected: " + fen + " : " + e.what(), rep(fen)); return; }
    R.count("states");
    std::vector<orc::Mv> pseudoO = orc::pseudoLegal(b);
    std::vector<orc::Mv> legalO;
    for (auto& m : pseudoO) if (orc::legalAfter(b, m)) legalO.push_back(m);
    std::set<int> legalSet = br::codes(legalO);
    if (nontrivialPos(b, legalO, pseudoO)) R.count("nontrivial");
    auto fail = [&](const std::string& what, const std::string& detail) {
        R.violation(what, what + " @ " + fen + " : " + detail, rep(fen));
    };
    // ep normalisation by the reader
    bool epO = orc::legalEpAvailable(b);
    if (pos.getEpSquare().isValid() != epO) fail("ep-fixup", std::string("reader ep=") + (pos.getEpSquare().isValid() ? "set" : "none") + " oracle legal ep=" + (epO ? "yes" : "no"));
    if (epO) R.count("with_legal_ep");
    // in check
    bool chkO = orc::inCheck(b, b.wtm);
    if (MoveGen::inCheck(pos) != chkO) fail("inCheck", chkO ? "oracle: in check" : "oracle: not in check");
    if (chkO) R.count("in_check");
    // sqAttacked for all squares (attacked by the side not to move)
    for (int s = 0; s < 64; s++) {
        bool a = MoveGen::sqAttacked(pos, Square(s));
        if (a != orc::attacked(b, s, !b.wtm)) { fail("sqAttacked", orc::sqName(s)); break; }
    }
    // legal move set
    MoveList pl;
    MoveGen::pseudoLegalMoves(pos, pl);
    std::set<int> pseudoT = br::codes(pl);
    if ((int)pseudoT.size() != pl.size) fail("duplicate-pseudo", br::setStr(pseudoT));
    MoveList ll = pl;
    MoveGen::removeIllegal(pos, ll);
    std::set<int> legalT = br::codes(ll);
    if ((int)legalT.size() != ll.size) fail("duplicate-legal", br::setStr(legalT));
    if (legalT != legalSet) fail("legal-set", "texel {" + br::setStr(legalT) + "} oracle {" + br::setStr(legalSet) + "}");
    R.count("transitions", (long long)legalO.size());
    // per-move verdicts on every pseudo-legal move
    bool chkT = MoveGen::inCheck(pos);
    for (int i = 0; i < pl.size; i++) {
        const Move& m = pl[i];
        int c = br::code(m);
        bool lo = legalSet.count(c) != 0;
        if (MoveGen::isLegal(pos, m, chkT) != lo) { fail("isLegal", br::codeStr(c) + (lo ? " oracle legal" : " oracle illegal")); }
        UndoInfo ui;
        pos.makeMove(m, ui);
        bool ctk = MoveGen::canTakeKing(pos);
        if (lo) {
            orc::Board nb = orc::apply(b, br::fromTexel(m));
            bool gco = orc::inCheck(nb, nb.wtm);
            bool inT = MoveGen::inCheck(pos);
            if (inT != gco) fail("inCheck-after-move", br::codeStr(c));
            pos.unMakeMove(m, ui);
            if (MoveGen::givesCheck(pos, m) != gco) fail("givesCheck", br::codeStr(c) + (gco ? " oracle: check" : " oracle: no check"));
            if (gco) R.count("checking_moves");
        } else {
            pos.unMakeMove(m, ui);
        }
        if (ctk == lo) fail("canTakeKing", br::codeStr(c));
    }
    // check evasions
    if (chkO) {
        MoveList ev;
        MoveGen::checkEvasions(pos, ev);
        std::set<int> evs = br::codes(ev);
        if ((int)evs.size() != ev.size) fail("duplicate-evasion", br::setStr(evs));
        std::set<int> evLegal;
        for (int i = 0; i < ev.size; i++) {
            int c = br::code(ev[i]);
            if (!pseudoT.count(c)) { fail("evasion-not-pseudolegal", br::codeStr(c)); continue; }
            if (MoveGen::isLegal(pos, ev[i], true)) evLegal.insert(c);
        }
        if (evLegal != legalSet) fail("evasions", "texel {" + br::setStr(evLegal) + "} oracle {" + br::setStr(legalSet) + "}");
    }
    // captures / captures+checks: supersets of their class (promotions to Q/N only: allPromotions=false)
    {
        MoveList cl, cc;
        MoveGen::pseudoLegalCaptures(pos, cl);
        MoveGen::pseudoLegalCapturesAndChecks(pos, cc);
        std::set<int> cs = br::codes(cl), ccs = br::codes(cc);
        for (int c : cs) if (!pseudoT.count(c)) fail("capture-not-pseudolegal", br::codeStr(c));
        for (int c : ccs) if (!pseudoT.count(c)) fail("capcheck-not-pseudolegal", br::codeStr(c));
        for (auto& m : legalO) {
            int t = orc::typeOf(m.promo);
            if (t == 3 || t == 4) continue; // rook / bishop under-promotions are outside both classes
            bool cap = orc::isCapture(b, m);
            if (cap || m.promo) {
                if (!cs.count(m.code())) fail("captures-omit", orc::uci(m));
                if (!ccs.count(m.code())) fail("capchecks-omit-capture", orc::uci(m));
                if (cap) R.count("captures");
            } else {
                orc::Board nb = orc::apply(b, m);
                if (orc::inCheck(nb, nb.wtm) && !ccs.count(m.code())) fail("capchecks-omit-check", orc::uci(m));
            }
        }
    }
}

// ---- slider / table universe ------------------------------------------------------------
static U64 rayAttack(int sq, U64 occ, bool rook) {
    static const int dx[8] = {1,-1,0,0,1,1,-1,-1}, dy[8] = {0,0,1,-1,1,-1,1,-1};
    U64 r = 0;
    for (int d = rook ? 0 : 4; d < (rook ? 4 : 8); d++) {
        int x = sq % 8 + dx[d], y = sq / 8 + dy[d];
        while (x >= 0 && x < 8 && y >= 0 && y < 8) {
            r |= 1ULL << (y*8+x);
            if (occ & (1ULL << (y*8+x))) break;
            x += dx[d]; y += dy[d];
        }
    }
    return r;
}

static void tables() {
    unsigned long long id = 0;
    for (int sq = 0; sq < 64; sq++) for (int rook = 0; rook < 2; rook++) {
        U64 mask = rayAttack(sq, 0, rook);   // all squares on the rays (incl. edges)
        // every subset of the ray squares x {rest empty, rest full}
        U64 sub = 0;
        do {
            if (W->mine(id++)) {
                for (int fill = 0; fill < 2; fill++) {
                    U64 occ = sub | (fill ? ~mask : 0);
                    U64 exp = rayAttack(sq, occ, rook);
                    U64 got = rook ? BitBoard::rookAttacks(Square(sq), occ) : BitBoard::bishopAttacks(Square(sq), occ);
                    R.count("states"); R.count("transitions");
                    if (sub & (sub - 1)) R.count("nontrivial");
                    if (got != exp) {
                        char buf[200]; snprintf(buf, sizeof buf, "%s sq=%d occ=%016llx got=%016llx exp=%016llx", rook ? "rook" : "bishop", sq, (unsigned long long)occ, (unsigned long long)got, (unsigned long long)exp);
                        R.violation(rook ? "rookAttacks" : "bishopAttacks", buf, std::string("{\"kind\":\"table\",\"desc\":\"") + buf + "\"}");
                    }
                }
            }
            sub = (sub - mask) & mask;
        } while (sub);
    }
    if (W->idx == 0) {
        for (int a = 0; a < 64; a++) {
            U64 kn = 0, kg = 0, wp = 0, bp = 0;
            for (int b = 0; b < 64; b++) {
                int dx = b % 8 - a % 8, dy = b / 8 - a / 8;
                if ((abs(dx) == 1 && abs(dy) == 2) || (abs(dx) == 2 && abs(dy) == 1)) kn |= 1ULL << b;
                if (std::max(abs(dx), abs(dy)) == 1) kg |= 1ULL << b;
                if (abs(dx) == 1 && dy == 1) wp |= 1ULL << b;
                if (abs(dx) == 1 && dy == -1) bp |= 1ULL << b;
                // squaresBetween / getDirection
                U64 btw = 0; int dir = 0;
                if ((dx || dy) && (dx == 0 || dy == 0 || abs(dx) == abs(dy))) {
                    int sx = (dx > 0) - (dx < 0), sy = (dy > 0) - (dy < 0);
                    dir = 8 * sy + sx;
                    for (int x = a % 8 + sx, y = a / 8 + sy; x != b % 8 || y != b / 8; x += sx, y += sy) btw |= 1ULL << (y*8+x);
                }
                // getDirection also encodes knight jumps by their square delta (used by givesCheck)
                if ((abs(dx) == 1 && abs(dy) == 2) || (abs(dx) == 2 && abs(dy) == 1)) dir = 8 * dy + dx;
                R.count("states"); R.count("transitions");
                if (BitBoard::squaresBetween(Square(a), Square(b)) != btw) R.violation("squaresBetween", std::to_string(a) + "," + std::to_string(b), "{}");
                if (BitBoard::getDirection(Square(a), Square(b)) != dir) R.violation("getDirection", std::to_string(a) + "," + std::to_string(b), "{}");
                if (BitBoard::getKingDistance(Square(a), Square(b)) != std::max(abs(dx), abs(dy))) R.violation("getKingDistance", std::to_string(a) + "," + std::to_string(b), "{}");
                if (BitBoard::getTaxiDistance(Square(a), Square(b)) != abs(dx) + abs(dy)) R.violation("getTaxiDistance", std::to_string(a) + "," + std::to_string(b), "{}");
            }
            if (BitBoard::knightAttacks(Square(a)) != kn) R.violation("knightAttacks", std::to_string(a), "{}");
            if (BitBoard::kingAttacks(Square(a)) != kg) R.violation("kingAttacks", std::to_string(a), "{}");
            if (BitBoard::wPawnAttacks(Square(a)) != wp) R.violation("wPawnAttacks", std::to_string(a), "{}");
            if (BitBoard::bPawnAttacks(Square(a)) != bp) R.violation("bPawnAttacks", std::to_string(a), "{}");
        }
    }
}

static void selftest() {
    // oracle cross-check against published perft counts (independent of texel)
    struct T { const char* fen; int d; unsigned long long n; };
    static const T ts[] = {
        {"rnbqkbnr/pppppppp/8/8/8/8/PPPPPPPP/RNBQKBNR w KQkq - 0 1", 4, 197281ULL},
        {"r3k2r/p1ppqpb1/bn2pnp1/3PN3/1p2P3/2N2Q1p/PPPBBPPP/R3K2R w KQkq - 0 1", 3, 97862ULL},
        {"8/2p5/3p4/KP5r/1R3p1k/8/4P1P1/8 w - - 0 1", 5, 674624ULL},
        {"r3k2r/Pppp1ppp/1b3nbN/nP6/BBP1P3/q4N2/Pp1P2PP/R2Q1RK1 w kq - 0 1", 4, 422333ULL},
        {"rnbq1k1r/pp1Pbppp/2p5/8/2B5/8/PPP1NnPP/RNBQK2R w KQ - 1 8", 3, 62379ULL},
        {"r4rk1/1pp1qppp/p1np1n2/2b1p1B1/2B1P1b1/P1NP1N2/1PP1QPPP/R4RK1 w - - 0 10", 3, 89890ULL},
    };
    int i = 0;
    for (auto& t : ts) {
        if (!W->mine(i++)) continue;
        orc::Board b; orc::fromFEN(t.fen, b);
        unsigned long long n = orc::perft(b, t.d);
        R.count("states", (long long)n); R.count("transitions", (long long)n);
        if (n != t.n) { R.note += std::string("ORACLE SELFTEST FAILED ") + t.fen + " "; R.count("oracle_selftest_failed"); }
        else R.count("oracle_selftest_ok");
    }
}

int main(int argc, char** argv) {
    Worker w(argc, argv); W = &w;
    br::initTexel();
    std::string part = w.args.get("part", "u3");
    R.part = part;
    uni::Part P{w.idx, w.n};
    auto visit = [&](const orc::Board& b, unsigned long long) {
        if (R.samples.size() < 2 && orc::inCheck(b, b.wtm)) R.sampleStr(orc::toFEN(b));
        checkPosition(b);
    };
    if (w.args.has("replay")) {
        std::string txt = readFile(w.args.get("replay"));
        orc::Board b;
        if (!orc::fromFEN(jsonGetStr(txt, "fen", jsonGetStr(txt, "case")), b)) { fprintf(stderr, "bad replay\n"); return 2; }
        checkPosition(b);
        w.finish(R); return 0;
    }
    if (part == "tbl") tables();
    else if (part == "selftest") selftest();
    else if (part == "u3") uni::U3((int)w.args.getInt("wk", 0), P, visit);
    else if (part == "uep") uni::UEP(P, visit, (int)w.args.getInt("sliders", 7));
    else if (part == "ucastle") uni::UCASTLE(P, visit, w.args.getInt("blockers", 0) != 0);
    else if (part == "ukraid") uni::UKRAID(P, visit);
    else if (part == "u4") {
        auto classes = uni::u4Classes(false);
        int wk = (int)w.args.getInt("wk", 2);
        long from = w.args.getInt("from", 0), cnt = w.args.getInt("count", (long)classes.size());
        unsigned long long c = 0;
        for (long i = from; i < from + cnt; i++) {
            const auto& cls = classes[(size_t)(i % (long)classes.size())];
            bool pawn = false; for (int p : cls) if (orc::typeOf(p) == 6) pawn = true;
            int mode = wk; if (mode == 2 && pawn) mode = 1;
            if (w.dl.hit()) { R.exhaustive = false; break; }
            uni::placeAll(cls, mode, P, visit, c, [&]() { return w.dl.hit(); });
            if (w.dl.hit()) { R.exhaustive = false; break; }
            R.outcome(uni::className(cls));
        }
    }
    else if (part == "perft") {
        auto seeds = uni::readSeeds(w.args.get("seeds", "corpus/seeds.fen"));
        int d = (int)w.args.getInt("depth", 3);
        uni::UPERFT(seeds, d, P, [&](const orc::Board& b, unsigned long long, int) { checkPosition(b); }, 2, [&]() { return w.dl.hit(); }); if (w.dl.hit()) R.exhaustive = false;
    }
    else { fprintf(stderr, "unknown part\n"); return 2; }
    w.finish(R);
    return 0;
}

// C15: reverse move generation is complete and consistent with forward moves.
// For every (P, m) of the universes: Q = P.m (FEN-normalised); the un-move list of Q must contain m with the undo
// information of P (completeness); every un-move listed for Q must restore a position in which the move is legal
// and leads back to Q (consistency).
#include "harness/common.hpp"
#include "harness/bridge.hpp"
#include "oracle/universes.hpp"
#include "revmovegen.hpp"
#include <unordered_set>

using namespace vh;
static Result R;
static Worker* W;
static std::unordered_set<std::string> seenQ;

static std::string rep(const std::string& fen, const std::string& mv) {
    return "{\"kind\":\"input\",\"fen\":\"" + jsonEsc(fen) + "\",\"move\":\"" + mv + "\"}";
}

static void consistency(const Position& Q, const orc::Board& qb, const std::string& pfen, const std::string& mv) {
    std::string qfen = orc::toFEN(qb);
    std::vector<UnMove> ums0, ums;
    RevMoveGen::genMoves(Q, ums0, false);
    RevMoveGen::genMoves(Q, ums, true);
    // the plain list must be contained in the list with all ep possibilities (so checking the latter covers both)
    for (const UnMove& a : ums0) {
        bool in = false;
        for (const UnMove& b : ums) if (a == b) { in = true; break; }
        if (!in) { ums.push_back(a); R.count("plain_list_not_subset"); }
    }
    {
        // no duplicates
        for (size_t i = 0; i < ums.size(); i++) for (size_t j = i + 1; j < ums.size(); j++)
            if (ums[i] == ums[j]) { R.violation("duplicate-unmove", qfen, rep(pfen, mv)); i = ums.size(); break; }
        std::string qkey = orc::stateKey(orc::normalised(qb), false);
        for (const UnMove& um : ums) {
            R.count("transitions");
            Position p(Q);
            p.unMakeMove(um.move, um.ui);
            orc::Board pb = br::fromTexel(p);
            orc::Mv om = br::fromTexel(um.move);
            auto what = [&]() { return "unmove " + orc::uci(om) + " cap=" + std::to_string(um.ui.capturedPiece) + " castle=" + std::to_string(um.ui.castleMask) +
                               " ep=" + std::to_string(um.ui.epSquare.asInt()) + " of Q=" + qfen + " -> P'=" + orc::toFEN(pb); };
            // the move must be legal in the restored position
            bool legal = false;
            if (pb.kingSq(true) >= 0 && pb.kingSq(false) >= 0)
                for (const orc::Mv& x : orc::pseudoLegal(pb, om.from)) if (x == om && orc::legalAfter(pb, x)) { legal = true; break; }
            if (!legal) { R.violation("unmove-not-legal-forward", what(), rep(pfen, mv)); continue; }
            // and lead back to Q (placement, side, rights, legally usable ep right)
            orc::Board back = orc::normalised(orc::apply(pb, om));
            if (orc::stateKey(back, false) != qkey)
                R.violation("unmove-does-not-lead-back", what() + " forward gives " + orc::toFEN(back), rep(pfen, mv));
            // texel's own forward move agrees
            Position f(p); UndoInfo ui; f.makeMove(um.move, ui); TextIO::fixupEPSquare(f);
            if (!f.drawRuleEquals(Q)) R.violation("unmove-texel-forward-differs", what(), rep(pfen, mv));
            if (!uni::validPlacement(pb)) R.count("restored_invalid_positions");   // allowed: "some but not all" invalid predecessors are excluded
            if (um.ui.halfMoveClock != 0) R.violation("unmove-hmc-not-zero", what(), rep(pfen, mv));
        }
    }
}

static void checkPosition(const orc::Board& b0) {
    std::string fen = orc::toFEN(b0);
    W->crumb(fen);
    Position P;
    try { P = TextIO::readFEN(fen); } catch (const ChessParseError&) { R.count("rejected"); return; }
    orc::Board pb = br::fromTexel(P);   // FEN-normalised
    R.count("states");
    bool pHasEp = pb.ep >= 0;
    bool nt = false;
    for (const orc::Mv& m : orc::legalMoves(pb)) {
        R.count("evaluations");
        std::string mv = orc::uci(m);
        W->crumb(fen + " " + mv);
        Position Q(P); UndoInfo ui; Move tm = br::toTexel(m);
        Q.makeMove(tm, ui);
        TextIO::fixupEPSquare(Q);
        orc::Board qb = br::fromTexel(Q);
        bool special = orc::isCapture(pb, m) || m.promo || (orc::typeOf(pb.sq[m.from]) == 1 && abs(m.to - m.from) == 2) || pHasEp || qb.ep >= 0 || pb.castle != qb.castle;
        if (special) nt = true;
        if (pb.castle != qb.castle) R.count("rights_losing_moves");
        if (orc::typeOf(pb.sq[m.from]) == 6 && m.to == pb.ep && pb.ep >= 0) R.count("ep_captures");
        if (m.promo && pb.sq[m.to]) R.count("capture_promotions");
        // completeness
        for (int all = 0; all < 2; all++) {
            if (pHasEp && !all) continue; // ep-carrying predecessors are only promised with includeAllEpSquares=true
            std::vector<UnMove> ums;
            RevMoveGen::genMoves(Q, ums, all != 0);
            bool found = false;
            for (const UnMove& um : ums) {
                if (!(um.move == tm)) continue;
                if (um.ui.capturedPiece != ui.capturedPiece) continue;
                if (um.ui.castleMask != pb.castle) continue;
                int e = um.ui.epSquare.isValid() ? um.ui.epSquare.asInt() : -1;
                if (e != pb.ep) continue;
                found = true; break;
            }
            if (!found) R.violation("missing-unmove", "P=" + fen + " m=" + mv + " includeAllEpSquares=" + std::to_string(all) + " Q=" + orc::toFEN(qb), rep(fen, mv));
        }
        // consistency of every un-move of Q (each distinct Q once)
        std::string qk = orc::stateKey(qb, false);
        if (seenQ.size() < 1500000) { if (!seenQ.insert(qk).second) continue; }
        R.count("distinct_Q");
        consistency(Q, qb, fen, mv);
    }
    if (nt) R.count("nontrivial");
}

int main(int argc, char** argv) {
    Worker w(argc, argv); W = &w;
    br::initTexel();
    std::string part = w.args.get("part", "perft");
    R.part = part;
    uni::Part P{w.idx, w.n};
    auto visit = [&](const orc::Board& b, unsigned long long) { if (R.samples.size() < 2) R.sampleStr(orc::toFEN(b)); checkPosition(b); };
    if (w.args.has("replay")) {
        std::string txt = readFile(w.args.get("replay"));
        orc::Board b; if (!orc::fromFEN(jsonGetStr(txt, "fen"), b)) return 2;
        checkPosition(b); w.finish(R); return 0;
    }
    if (part == "u3") uni::U3((int)w.args.getInt("wk", 2), P, visit, (int)w.args.getInt("types", 0x7c));
    else if (part == "uep") uni::UEP(P, visit, (int)w.args.getInt("sliders", 7), (int)w.args.getInt("files", 255), (int)w.args.getInt("sides", 3));
    else if (part == "ucastle") uni::UCASTLE(P, visit, w.args.getInt("blockers", 0) != 0);
    else if (part == "ukraid") uni::UKRAID(P, visit);
    else if (part == "u4") {
        auto classes = uni::u4Classes(false);
        long from = w.args.getInt("from", 0), cnt = w.args.getInt("count", 4);
        unsigned long long c = 0;
        for (long i = from; i < from + cnt; i++) {
            const auto& cls = classes[(size_t)(i % (long)classes.size())];
            bool pawn = false; for (int p : cls) if (orc::typeOf(p) == 6) pawn = true;
            uni::placeAll(cls, pawn ? 1 : 2, P, visit, c, [&]() { return w.dl.hit(); });
            if (w.dl.hit()) { R.exhaustive = false; break; }
            R.outcome(uni::className(cls));
        }
    }
    else if (part == "perft") {
        auto seeds = uni::readSeeds(w.args.get("seeds", "corpus/seeds.fen"));
        uni::UPERFT(seeds, (int)w.args.getInt("depth", 2), P, [&](const orc::Board& b, unsigned long long, int) { checkPosition(b); }, 2, [&]() { return w.dl.hit(); }); if (w.dl.hit()) R.exhaustive = false;
    }
    else return 2;
    w.finish(R);
    return 0;
}

// C14: Clear Hash makes the next search identical to a fresh start.
// Histories = (g trivial searches, g = 0..16: every value of the 4-bit generation counter) . (operation sequences over an alphabet of
// searches / option changes / games) . "setoption name Clear Hash" . probe search; the probe's transcript (bestmove, ponder, every
// info line's depth/score/bound/nodes/pv, hashfull) must equal the transcript of the same probe in a freshly started engine.
#include "harness/common.hpp"
#include "harness/session.hpp"

using namespace vh;
static Result R;
static Worker* W;

typedef std::vector<std::string> Script;
static void append(Script& s, const Script& t) { for (auto& x : t) s.push_back(x); }
static std::string scriptStr(const Script& s) { std::string o; for (auto& l : s) { if (!o.empty()) o += " | "; o += l; } return o; }

/** Normalised result of the LAST go of a transcript: info lines without time/nps, bestmove line. */
static std::vector<std::string> lastSearch(const ses::Transcript& t) {
    std::vector<std::string> out;
    size_t start = 0;
    for (size_t i = 0; i < t.lines.size(); i++) if (t.lines[i].rfind("> go", 0) == 0) start = i;
    for (size_t i = start; i < t.lines.size(); i++) {
        const std::string& l = t.lines[i];
        if (l.rfind("> ", 0) == 0) continue;
        if (l.rfind("info", 0) == 0) {
            std::istringstream is(l); std::string w, o;
            while (is >> w) {
                if (w == "time" || w == "nps") { std::string skip; is >> skip; continue; }
                if (w == "currmove" || w == "currmovenumber") { std::string skip; is >> skip; continue; }   // printed only after 1 s of search time
                o += w; o += ' ';
            }
            if (o == "info ") continue;
            out.push_back(o);
        } else if (l.rfind("bestmove", 0) == 0) out.push_back(l);
    }
    // periodic statistics lines ("info nodes N hashfull H") are printed once per second of wall time: only the last one (the final
    // node count, printed when the search ends) is part of the result
    int lastStats = -1;
    for (size_t i = 0; i < out.size(); i++) if (out[i].rfind("info nodes", 0) == 0) lastStats = (int)i;
    std::vector<std::string> f;
    for (size_t i = 0; i < out.size(); i++) if (out[i].rfind("info nodes", 0) != 0 || (int)i == lastStats) f.push_back(out[i]);
    out.swap(f);
    return out;
}

static std::vector<Script> OPS() {
    const std::string X1 = "position fen r1bq1rk1/pp2bppp/2n1pn2/2pp4/3P1B2/2PBPN2/PP1N1PPP/R2QK2R w KQ - 2 8";
    const std::string X2 = "position startpos moves d2d4 g8f6 c2c4 e7e6";
    const std::string X3 = "position fen 8/5pk1/6p1/8/3R4/5PK1/6P1/2r5 w - - 0 40";
    return {
        {X1, "go depth 5", "@await bestmove"},
        {X2, "go depth 5", "@await bestmove"},
        {X3, "go nodes 3000", "@await bestmove"},
        {X1, "go movetime 30", "@await bestmove"},
        {"position fen 8/8/8/8/8/4k3/8/3QK3 w - - 0 1", "go infinite", "@sleep 150", "stop", "@await bestmove"},
        {"ucinewgame", "isready", "@await readyok"},
        {"setoption name Hash value 2", "isready", "@await readyok", X2, "go depth 3", "@await bestmove", "setoption name Hash value 16", "isready", "@await readyok"},
        {"setoption name MultiPV value 3", X1, "go depth 3", "@await bestmove", "setoption name MultiPV value 1"},
        {"setoption name Strength value 500", X2, "go depth 3", "@await bestmove", "setoption name Strength value 1000"},
        {"setoption name UCI_AnalyseMode value true", X3, "go depth 3", "@await bestmove", "setoption name UCI_AnalyseMode value false"},
        {"setoption name Contempt value 50", X1, "go depth 3", "@await bestmove", "setoption name Contempt value 0"},
        {"setoption name Threads value 2", X2, "go depth 4", "@await bestmove", "setoption name Threads value 1", "isready", "@await readyok"},
        {X3, "go ponder wtime 60000 btime 60000", "@sleep 30", "stop", "@await bestmove"},
    };
}

static std::vector<Script> PROBES(int depth) {
    return {
        {"position startpos moves e2e4 c7c5 g1f3", "go depth " + std::to_string(depth), "@await bestmove"},
        {"position fen r3k2r/p1ppqpb1/bn2pnp1/3PN3/1p2P3/2N2Q1p/PPPBBPPP/R3K2R w KQkq - 0 1", "go depth " + std::to_string(depth - 1), "@await bestmove"},
        {"position fen 8/5pk1/6p1/8/3R4/5PK1/6P1/2r5 w - - 0 40", "go nodes 20000", "@await bestmove"},
    };
}

static std::map<std::string, std::vector<std::string>> freshCache;

static const std::vector<std::string>& fresh(const Script& probe) {
    std::string k = scriptStr(probe);
    auto it = freshCache.find(k);
    if (it != freshCache.end()) return it->second;
    Script s = {"isready", "@await readyok"}; append(s, probe); s.push_back("quit");
    ses::Transcript t1 = ses::runSession(s, 300), t2 = ses::runSession(s, 300);
    std::vector<std::string> a = lastSearch(t1), b = lastSearch(t2);
    R.count("fresh_runs", 2);
    if (a != b || a.empty()) R.violation("fresh-engine-not-deterministic", k + " : two freshly started engines gave different results for the same command", "{\"kind\":\"ops\",\"script\":\"" + jsonEsc(scriptStr(s)) + "\"}");
    return freshCache[k] = a;
}

static unsigned long long hid = 0;
static void runHistory(int g, const std::vector<Script>& ops, const Script& probe, const std::string& family) {
    unsigned long long id = hid++;
    if (!W->mine(id)) return;
    if (W->dl.hit()) { R.exhaustive = false; return; }
    Script s = {"isready", "@await readyok"};
    for (int i = 0; i < g; i++) { s.push_back("position startpos"); s.push_back("go depth 1"); s.push_back("@await bestmove"); }
    for (auto& o : ops) append(s, o);
    s.push_back("setoption name Clear Hash"); s.push_back("isready"); s.push_back("@await readyok");
    append(s, probe);
    s.push_back("quit");
    W->crumb(scriptStr(s));
    ses::Transcript t = ses::runSession(s, 300);
    R.count("states"); R.count("transitions", (long long)t.lines.size());
    if (g != 1 || !ops.empty()) R.count("nontrivial");
    std::string rep = "{\"kind\":\"ops\",\"script\":\"" + jsonEsc(scriptStr(s)) + "\"}";
    ses::Analysis an = ses::analyse(t, false);
    for (auto& f : an.findings) R.violation("session:" + f.sig, family + " [" + scriptStr(s) + "] " + f.detail.substr(0, 400), rep);
    std::vector<std::string> got = lastSearch(t);
    const std::vector<std::string>& want = fresh(probe);
    if (got != want) {
        std::string diff;
        for (size_t i = 0; i < std::max(got.size(), want.size()); i++) { std::string a = i < got.size() ? got[i] : "(none)", b = i < want.size() ? want[i] : "(none)"; if (a != b) { diff = "first difference: after history '" + a + "' fresh '" + b + "'"; break; } }
        R.violation("clear-hash-differs", family + " g=" + std::to_string(g) + " [" + scriptStr(s) + "] " + diff, rep);
    }
    R.outcome(family + (got == want ? ":same" : ":differs"));
    if (R.samples.size() < 3 && !ops.empty() && (id % 37) == 5) R.sampleStr(scriptStr(s));
}

int main(int argc, char** argv) {
    Worker w(argc, argv); W = &w;
    ses::warm();
    R.part = w.args.get("part", "histories");
    bool thorough = w.args.get("tier", "quick") == "thorough";
    int depth = (int)w.args.getInt("depth", thorough ? 8 : 7);
    if (w.args.has("replay")) {
        std::string txt = readFile(w.args.get("replay"));
        std::string sc = jsonGetStr(txt, "script");
        Script s; size_t p = 0;
        while (true) { size_t q = sc.find(" | ", p); s.push_back(sc.substr(p, q == std::string::npos ? std::string::npos : q - p)); if (q == std::string::npos) break; p = q + 3; }
        // the probe is everything after the last "Clear Hash" + isready/await
        Script probe; bool after = false; int skip = 0;
        for (auto& l : s) { if (l.find("Clear Hash") != std::string::npos) { after = true; skip = 2; continue; } if (after) { if (skip > 0) { skip--; continue; } if (l != "quit") probe.push_back(l); } }
        ses::Transcript t = ses::runSession(s, 300);
        if (!probe.empty() && lastSearch(t) != fresh(probe)) R.violation("clear-hash-differs", sc, "{}");
        w.finish(R); return 0;
    }
    auto ops = OPS();
    auto probes = PROBES(depth);
    // (1) every value of the generation counter, no other history
    for (int g = 0; g <= 16; g++) for (auto& p : probes) runHistory(g, {}, p, "generation");
    // (2) one operation, generation counts around the wrap
    std::vector<int> gs = thorough ? std::vector<int>{0, 1, 7, 13, 14, 15, 16} : std::vector<int>{0, 13, 14, 15};
    for (int g : gs) for (auto& o : ops) for (size_t pi = 0; pi < probes.size(); pi++) runHistory(g, {o}, probes[pi], "one-op");
    // (3) every ordered pair of operations
    for (auto& o1 : ops) for (auto& o2 : ops) for (size_t pi = 0; pi < probes.size(); pi++) runHistory(0, {o1, o2}, probes[pi], "two-ops");
    // (4) thorough: every ordered triple over a reduced alphabet
    if (thorough) for (size_t a = 0; a < ops.size(); a += 2) for (size_t b = 0; b < ops.size(); b += 2) for (size_t c = 0; c < ops.size(); c += 3) runHistory(0, {ops[a], ops[b], ops[c]}, probes[0], "three-ops");
    // (5) same command twice in the same state (second probe after Clear Hash is covered above; here: probe, Clear Hash, probe)
    for (auto& p : probes) runHistory(0, {p}, p, "same-command-twice");
    R.count("evaluations", R.counters["states"]);
    w.finish(R);
    return 0;
}

// C05 (a): UCI session contract over ALL command sequences up to length L of an alphabet, in two delivery regimes
//   eager   : everything written at once, then end of input
//   patient : "@await bestmove" after every go that terminates by itself, "@await readyok" after every isready
// Each session is the real UCIProtocol + EngineControl + EngineMainThread stack in a forked child (free-running threads);
// the transcript is judged by the contract automaton (harness/session.hpp). Part (b), schedules, is the c10_sessions explorer.
#include "harness/common.hpp"
#include "harness/session.hpp"

using namespace vh;
static Result R;
static Worker* W;

static const std::vector<std::string> ALPHA = {
    "uci", "isready", "ucinewgame",
    "setoption name Hash value 1", "setoption name Threads value 2", "setoption name MultiPV value 2", "setoption name Clear Hash",
    "setoption name Ponder value true", "setoption name Strength value 0", "setoption name Hash value 0", "setoption name Foo value 1",
    "position startpos", "position startpos moves e2e4 e7e5", "position fen 7k/5Q2/6K1/8/8/8/8/8 b - - 0 1", "position fen 7k/8/6KQ/8/8/8/8/8 b - - 0 1", "position fen 8/8/8/8 w",
    "go depth 1", "go nodes 1", "go movetime 1", "go wtime 10 btime 10", "go mate 1", "go infinite", "go ponder wtime 100 btime 100", "go depth 1 searchmoves e2e4", "go searchmoves e2e4 d2d4 nodes 1", "go",
    "stop", "ponderhit", "quit", "xyzzy", "",
};
static const std::vector<std::string> GARBAGE = {
    "go depth x", "go depth", "go wtime -5 btime 99999999999", "go movetime 99999999999999999999", "go nodes -1", "go mate 0", "go searchmoves zz", "go searchmoves", "go depth 1 depth 2 infinite",
    "setoption", "setoption name", "setoption name Hash", "setoption name Hash value abc", "setoption name Hash value 99999999999", "setoption name Threads value 0", "setoption name Threads value -3",
    "setoption name MultiPV value 0", "setoption value 3", "setoption name UCI_Elo value x", "position", "position fen", "position moves e2e4", "position startpos moves zzzz",
    "position fen rnbqkbnr/pppppppp/8/8/8/8/PPPPPPPP/RNBQKBNR w KQkq - 2147483647 1 moves g1f3", "position fen k7/8/8/8/8/8/8/K7 w - - -5 -5",
    "isready isready", "uci uci", "stop stop", "ponderhit x", std::string(300, 'g'), "go " + std::string(300, '9'), "\t go\tdepth\t1 ", "GO DEPTH 1", "quit now",
};

static bool selfTerminating(const std::string& go) {
    // a go that the engine ends by itself: it carries at least one limit with a well-formed positive number and is not infinite / ponder
    std::istringstream is(go); std::string w; is >> w;
    if (w != "go") return false;
    bool limit = false;
    while (is >> w) {
        if (w == "infinite" || w == "ponder") return false;
        if (w == "depth" || w == "nodes" || w == "movetime" || w == "mate" || w == "wtime" || w == "btime") {
            std::string v; if (!(is >> v)) return false;
            if (v.empty() || v.size() > 7 || v.find_first_not_of("0123456789") != std::string::npos || atol(v.c_str()) <= 0) return false;
            if (w != "btime") limit = true;
        }
    }
    return limit;
}

static unsigned long long sid = 0;
static void runSeq(const std::vector<std::string>& cmds, bool patient, const std::string& family) {
    unsigned long long id = sid++;
    if (!W->mine(id)) return;
    if (W->dl.hit()) { R.exhaustive = false; return; }
    std::vector<std::string> script;
    bool quitSeen = false;
    for (auto& c : cmds) {
        script.push_back(c);
        if (c == "quit") { quitSeen = true; break; }
        if (patient) { if (selfTerminating(c)) script.push_back("@await bestmove"); if (c == "isready") script.push_back("@await readyok"); }
    }
    (void)quitSeen;
    std::string sstr; for (auto& l : script) { if (!sstr.empty()) sstr += " | "; sstr += l; }
    W->crumb(sstr);
    ses::Transcript t = ses::runSession(script, 60);
    ses::Analysis a = ses::analyse(t, true);
    R.count("states"); R.count("transitions", (long long)t.lines.size());
    bool hasGo = false; for (auto& c : cmds) if (c.rfind("go", 0) == 0) hasGo = true;
    if (hasGo) R.count("nontrivial");
    for (auto& st : a.controllerStates) R.outcome("ctl:" + st);
    std::string rep = "{\"kind\":\"ops\",\"script\":\"" + jsonEsc(sstr) + "\"}";
    for (auto& f : a.findings) {
        std::string sig = f.sig;
        if (sig.rfind("crash", 0) == 0 && !cmds.empty() && cmds[0] == "ponderhit") sig = "crash:ponderhit-before-init";
        R.violation(sig, family + (patient ? " patient" : " eager") + " [" + sstr + "] " + f.detail.substr(0, 500), rep);
    }
    if (R.samples.size() < 3 && hasGo && (id % 1009) == 5) R.sampleStr(sstr);
}

template <class F> static void sequences(const std::vector<std::string>& alpha, int len, F f) {
    std::vector<size_t> idx((size_t)len, 0);
    while (true) {
        std::vector<std::string> cmds; for (size_t i : idx) cmds.push_back(alpha[i]);
        f(cmds);
        int k = len - 1;
        while (k >= 0 && ++idx[(size_t)k] == alpha.size()) { idx[(size_t)k] = 0; k--; }
        if (k < 0 || !R.exhaustive) break;
    }
}

int main(int argc, char** argv) {
    Worker w(argc, argv); W = &w;
    ses::warm();
    UciParams::hash->set("1");
    std::string part = w.args.get("part", "histories");
    R.part = part;
    int L = (int)w.args.getInt("len", 3);
    if (w.args.has("replay")) {
        std::string txt = readFile(w.args.get("replay"));
        std::string sc = jsonGetStr(txt, "script");
        std::vector<std::string> s; size_t p = 0;
        while (true) { size_t q = sc.find(" | ", p); s.push_back(sc.substr(p, q == std::string::npos ? std::string::npos : q - p)); if (q == std::string::npos) break; p = q + 3; }
        ses::Transcript t = ses::runSession(s, 120);
        ses::Analysis a = ses::analyse(t, true);
        for (auto& f : a.findings) R.violation(f.sig, sc + " : " + f.detail.substr(0, 500), "{}");
        w.finish(R); return 0;
    }
    if (part == "histories") {
        for (int len = 1; len <= L && R.exhaustive; len++) for (int patient = 0; patient < 2; patient++) {
            bool goOnly = len >= 4;   // the longest tier is restricted to sequences containing at least one go
            sequences(ALPHA, len, [&](const std::vector<std::string>& c) {
                if (goOnly) { bool g = false; for (auto& x : c) if (x.rfind("go", 0) == 0) g = true; if (!g) return; }
                runSeq(c, patient != 0, "len" + std::to_string(len));
            });
        }
    } else if (part == "garbage") {
        // syntactically odd command lines: alone, followed by a plain search, and in pairs
        for (auto& g : GARBAGE) { runSeq({g}, false, "garbage1"); runSeq({g, "isready", "go depth 1", "stop"}, true, "garbage+search"); runSeq({"position startpos", "go infinite", g, "stop"}, false, "garbage-during-search"); }
        for (int patient = 0; patient < 2; patient++) sequences(GARBAGE, 2, [&](const std::vector<std::string>& c) { std::vector<std::string> s = c; s.push_back("stop"); s.push_back("isready"); runSeq(s, patient != 0, "garbage2"); });
    } else return 2;
    R.count("evaluations", R.counters["states"]);
    w.finish(R);
    return 0;
}

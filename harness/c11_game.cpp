// C11 (console game mode): draw claims and game-over states are accepted / reported exactly when the rules say so, for every history.
// Explicit-state breadth-first search over command histories of the real `Game` object (two human stub players). A state is the
// command history replayed on a fresh object; states are deduplicated by a serialisation of the COMPLETE real state (position incl.
// raw ep square, move list, undo records, offer flags, cursor, pending offer, claim state, resign state). After every command the
// observable state is compared with a reference model whose chess content (legality, mate, stalemate, dead material, FIDE repetition
// key with legally possible en passant, half-move clock) comes from the independent oracle; in ALIVE states
// `ComputerPlayer::canClaimDraw` is compared with the rules for every legal move as well.
#include "harness/common.hpp"
#include "harness/bridge.hpp"
#include "game.hpp"
#include "search.hpp"
#include <unordered_set>
#include <iostream>
#include <memory>

using namespace vh;
static Result R;
static Worker* W;

struct Stub : Player {
    std::string getCommand(const Position&, bool, const std::vector<Position>&) override { return "quit"; }
    bool isHumanPlayer() override { return true; }
    void useBook(bool) override {}
    void timeLimit(int, int) override {}
    void clearTT() override {}
};

// ---------------------------------------------------------------- reference model
enum { ALIVE = Game::ALIVE };
struct Model {
    orc::Board start = orc::startPos();
    std::vector<orc::Mv> ml; std::vector<char> offers; int cur = 0;
    bool pending = false; int draw = ALIVE; std::string drawMove; int resign = ALIVE;

    orc::Board posAt(int k) const { orc::Board b = orc::normalised(start); for (int i = 0; i < k; i++) b = orc::normalised(orc::apply(b, ml[(size_t)i])); return b; }
    orc::Board pos() const { return posAt(cur); }
    int state() const {
        orc::Board b = pos();
        if (orc::legalMoves(b).empty()) {
            if (orc::inCheck(b, b.wtm)) return b.wtm ? Game::BLACK_MATE : Game::WHITE_MATE;
            return b.wtm ? Game::WHITE_STALEMATE : Game::BLACK_STALEMATE;
        }
        if (orc::deadMaterial(b)) return Game::DRAW_NO_MATE;
        if (resign != ALIVE) return resign;
        return draw;
    }
    bool haveOffer() const { return cur > 0 ? offers[(size_t)cur - 1] != 0 : false; }
    bool findMove(const std::string& s, orc::Mv& out) const {
        orc::Board b = pos();
        for (auto& m : orc::legalMoves(b)) if (orc::uci(m) == s) { out = m; return true; }
        return false;
    }
    void play(const orc::Mv& m) {
        ml.resize((size_t)cur); offers.resize((size_t)cur);
        ml.push_back(m); offers.push_back(pending ? 1 : 0); pending = false; cur++;
    }
    void reset(const orc::Board& s) { start = s; ml.clear(); offers.clear(); cur = 0; pending = false; draw = ALIVE; resign = ALIVE; }
    int occurrences(const orc::Board& target) const {   // in the game line up to the cursor, the target itself not included
        int n = 0; std::string k = orc::repKey(target);
        for (int i = 0; i <= cur; i++) if (orc::repKey(posAt(i)) == k) n++;
        return n;
    }
    /** @return "understood" as Game::processString reports it */
    bool apply(const std::string& cmd) {
        if (cmd == "new") { reset(orc::startPos()); return true; }
        if (cmd == "undo") { if (cur > 0) { cur--; pending = false; draw = ALIVE; resign = ALIVE; } return true; }
        if (cmd == "redo") { if (cur < (int)ml.size()) { cur++; pending = false; } return true; }
        if (cmd.rfind("setpos ", 0) == 0) {
            try { Position p = TextIO::readFEN(cmd.substr(7)); reset(br::fromTexel(p)); } catch (const ChessParseError&) {}
            return true;
        }
        if (cmd == "resign") { if (state() == ALIVE) resign = pos().wtm ? Game::RESIGN_WHITE : Game::RESIGN_BLACK; return true; }
        if (cmd.rfind("draw ", 0) == 0) {
            if (state() != ALIVE) return true;
            std::string d = cmd.substr(5);
            if (d.rfind("rep", 0) == 0 || d.rfind("50", 0) == 0) {
                bool rep = d.rfind("rep", 0) == 0;
                size_t sp = d.find(' ');
                orc::Mv m; bool haveM = sp != std::string::npos && findMove(d.substr(sp + 1), m);
                orc::Board b = pos();
                orc::Board target = haveM ? orc::apply(b, m) : b;
                bool valid = rep ? (occurrences(target) + (haveM ? 1 : 0) >= 3) : (target.hmc >= 100);
                if (valid) { draw = rep ? Game::DRAW_REP : Game::DRAW_50; drawMove = haveM ? orc::san(b, m) : ""; }
                else { pending = true; if (haveM) play(m); }
                return true;
            }
            if (d.rfind("offer ", 0) == 0) {
                pending = true;
                orc::Mv m; if (findMove(d.substr(6), m)) play(m);
                return true;
            }
            if (d == "accept") { if (haveOffer()) draw = Game::DRAW_AGREE; return true; }
            return false;
        }
        if (state() != ALIVE) return false;
        orc::Mv m; if (!findMove(cmd, m)) return false;
        play(m);
        return true;
    }
    std::string stateString() const {
        switch (state()) {
        case Game::ALIVE: return "";
        case Game::WHITE_MATE: return "Game over, white mates!";
        case Game::BLACK_MATE: return "Game over, black mates!";
        case Game::WHITE_STALEMATE: case Game::BLACK_STALEMATE: return "Game over, draw by stalemate!";
        case Game::DRAW_REP: return std::string("Game over, draw by repetition!") + (drawMove.empty() ? "" : " [" + drawMove + "]");
        case Game::DRAW_50: return std::string("Game over, draw by 50 move rule!") + (drawMove.empty() ? "" : " [" + drawMove + "]");
        case Game::DRAW_NO_MATE: return "Game over, draw by impossibility of mate!";
        case Game::DRAW_AGREE: return "Game over, draw by agreement!";
        case Game::RESIGN_WHITE: return "Game over, white resigns!";
        case Game::RESIGN_BLACK: return "Game over, black resigns!";
        }
        return "?";
    }
    std::string result() const {
        switch (state()) {
        case Game::ALIVE: return "*";
        case Game::WHITE_MATE: case Game::RESIGN_BLACK: return "1-0";
        case Game::BLACK_MATE: case Game::RESIGN_WHITE: return "0-1";
        default: return "1/2-1/2";
        }
    }
    /** Previous positions back to the last zeroing move (what a player is given to judge repetitions). */
    std::vector<orc::Board> history() const {
        std::vector<orc::Board> h;
        for (int k = cur; k > 0; k--) { if (posAt(k).hmc == 0) break; h.push_back(posAt(k - 1)); }
        std::reverse(h.begin(), h.end());
        return h;
    }
    /** What a player may claim before / with move m, by the rules. */
    std::string claim(const orc::Mv& m) const {
        orc::Board b = pos();
        std::vector<orc::Board> h = history();
        auto count = [&](const orc::Board& t) { int n = 0; std::string k = orc::repKey(t); for (auto& x : h) if (orc::repKey(x) == k) n++; return n; };
        if (b.hmc >= 100) return "draw 50";
        if (count(b) >= 2) return "draw rep";
        orc::Board a = orc::apply(b, m);
        std::string s = orc::san(b, m);
        if (a.hmc >= 100) return "draw 50 " + s;
        bool zeroing = a.hmc == 0;
        if (!zeroing) { h.push_back(b); if (count(a) >= 2) return "draw rep " + s; }
        return "";
    }
};

static const char* stName(int s) {
    static const char* n[] = {"ALIVE", "WHITE_MATE", "BLACK_MATE", "WHITE_STALEMATE", "BLACK_STALEMATE", "DRAW_REP", "DRAW_50", "DRAW_NO_MATE", "DRAW_AGREE", "RESIGN_WHITE", "RESIGN_BLACK"};
    return (s >= 0 && s <= 10) ? n[s] : "?";
}

// ---------------------------------------------------------------- real object
static std::string realKey(Game& g) {
    std::string k = TextIO::toFEN(g.pos);
    k += '|'; k += std::to_string(g.currentMove);
    for (size_t i = 0; i < g.moveList.size(); i++) {
        k += ' '; k += std::to_string(br::code(g.moveList[i]));
        const UndoInfo& u = g.uiInfoList[i];
        k += ':'; k += std::to_string(u.capturedPiece); k += ','; k += std::to_string(u.castleMask); k += ','; k += std::to_string(u.epSquare.isValid() ? u.epSquare.asInt() : -1); k += ','; k += std::to_string(u.halfMoveClock);
        k += g.drawOfferList[i] ? 'd' : '-';
    }
    k += '|'; k += g.pendingDrawOffer ? 'p' : '-'; k += std::to_string((int)g.drawState); k += ','; k += std::to_string((int)g.resignState);
    if (g.drawState == Game::DRAW_REP || g.drawState == Game::DRAW_50) k += g.drawStateMoveStr;
    return k;
}

static ComputerPlayer* CP;

/** Compare all observables; returns "" or (sig, detail). */
static bool compare(Game& g, const Model& m, bool retReal, bool retModel, std::string& sig, std::string& detail) {
    if (retReal != retModel) { sig = "game:understood"; detail = std::string("processString returned ") + (retReal ? "true" : "false") + ", rules say " + (retModel ? "true" : "false"); return false; }
    orc::Board rb = orc::normalised(br::fromTexel(g.getPos())), mb = m.pos();
    if (orc::stateKey(rb, true) != orc::stateKey(mb, true)) { sig = "game:position"; detail = "position " + orc::toFEN(rb) + " expected " + orc::toFEN(mb); return false; }
    int rs = g.getGameState(), ms = m.state();
    if (rs != ms) { sig = std::string("game:state:") + stName(rs) + "-expected-" + stName(ms); detail = sig; return false; }
    if (g.haveDrawOffer() != m.haveOffer()) { sig = "game:draw-offer"; detail = std::string("haveDrawOffer ") + (g.haveDrawOffer() ? "true" : "false"); return false; }
    if (g.currentMove != m.cur || g.moveList.size() != m.ml.size()) { sig = "game:cursor"; detail = "cursor/move list length differs"; return false; }
    if (g.getGameStateString() != m.stateString()) { sig = "game:state-string"; detail = "'" + g.getGameStateString() + "' expected '" + m.stateString() + "'"; return false; }
    if (g.getPGNResultString() != m.result()) { sig = "game:result-string"; detail = g.getPGNResultString() + " expected " + m.result(); return false; }
    std::vector<Position> hist; g.getHistory(hist);
    std::vector<orc::Board> mh = m.history();
    bool histOk = hist.size() == mh.size();
    for (size_t i = 0; histOk && i < hist.size(); i++) if (orc::stateKey(orc::normalised(br::fromTexel(hist[i])), true) != orc::stateKey(mh[i], true)) histOk = false;
    if (!histOk) { sig = "game:history"; detail = "getHistory: " + std::to_string(hist.size()) + " positions, expected " + std::to_string(mh.size()) + " (or contents differ)"; return false; }
    if (ms == ALIVE) {
        // what the computer player would claim, for every legal move
        std::vector<U64> hl(SearchConst::MAX_SEARCH_DEPTH * 2 + hist.size());
        int n = 0; for (auto& p : hist) hl[(size_t)n++] = p.zobristHash();
        for (auto& mv : orc::legalMoves(mb)) {
            Position p(g.getPos());
            std::string got = CP->canClaimDraw(p, hl, n, br::toTexel(mv));
            std::string exp = m.claim(mv);
            R.count("claim_queries"); if (!exp.empty()) R.count("claims_due");
            if (got != exp) { sig = "game:computer-claim:" + std::string(exp.empty() ? "spurious" : (got.empty() ? "missed" : "different")); detail = "canClaimDraw(" + orc::uci(mv) + ") = '" + got + "' expected '" + exp + "'"; return false; }
        }
    }
    return true;
}

struct Seed { std::string name; std::vector<std::string> prefix; std::vector<std::string> moves; };

static std::vector<Seed> seeds() {
    const std::string P = "8/8/8/8/R2p3k/8/2P5/6K1 w - - 0 1", L = "8/8/8/8/3p3k/8/R1P5/6K1 w - - 0 1";
    return {
        {"startpos-knights", {"new"}, {"g1f3", "f3g1", "g8f6", "f6g8"}},
        {"startpos-knights-2nd", {"new", "g1f3", "g8f6", "f3g1", "f6g8", "g1f3", "g8f6", "f3g1"}, {"g1f3", "f3g1", "g8f6", "f6g8"}},
        {"castling-rights", {"setpos r3k2r/8/8/8/8/8/8/R3K2R w KQkq - 0 1"}, {"h1g1", "g1h1", "h8g8", "g8h8"}},
        {"castling-rights-2nd", {"setpos r3k2r/8/8/8/8/8/8/R3K2R w KQkq - 0 1", "h1g1", "h8g8", "g1h1", "g8h8", "h1g1", "h8g8", "g1h1", "g8h8", "h1g1", "h8g8", "g1h1"}, {"h1g1", "g1h1", "h8g8", "g8h8"}},
        {"ep-illegal", {"setpos " + P, "c2c4"}, {"h4h5", "h5h4", "a4a3", "a3a4"}},
        {"ep-illegal-2nd", {"setpos " + P, "c2c4", "h4h5", "a4a3", "h5h4", "a3a4", "h4h5", "a4a3", "h5h4"}, {"h4h5", "h5h4", "a4a3", "a3a4"}},
        {"ep-legal", {"setpos " + L, "c2c4"}, {"h4h5", "h5h4", "a2a3", "a3a2", "d4c3"}},
        {"ep-legal-2nd", {"setpos " + L, "c2c4", "h4h5", "a2a3", "h5h4", "a3a2", "h4h5", "a2a3", "h5h4"}, {"h4h5", "h5h4", "a2a3", "a3a2"}},
        {"fifty-97", {"setpos 7k/8/8/8/8/8/8/K6R w - - 97 60"}, {"h1h2", "h2h1", "h8g8", "g8h8", "a1b1"}},
        {"fifty-99-mate", {"setpos 7k/5K2/8/8/8/8/8/6R1 w - - 99 80"}, {"g1h1", "g1g2", "h8h7", "g2h2"}},
        {"fifty-98-capture", {"setpos 7k/8/8/8/8/8/1p6/K6R w - - 98 60"}, {"a1b2", "h1h2", "h8g8", "g8h8", "b2b1q"}},
        {"terminal-kqk", {"setpos 7k/8/5KQ1/8/8/8/8/8 w - - 0 1"}, {"g6g7", "g6f7", "g6g1", "h8g8", "g6h6"}},
        {"dead-material", {"setpos kb6/8/8/8/8/8/1n6/K1B5 w - - 0 1"}, {"c1b2", "c1d2", "b2d3", "a8a7", "a1b2"}},
        {"dead-kvk", {"setpos 7k/8/8/8/8/8/1r6/K7 w - - 0 1"}, {"a1b2", "a1b1", "h8g8"}},
        {"krkr-2nd", {"setpos 8/8/4k3/8/8/4K3/R6r/8 w - - 0 1", "a2a1", "h2h1", "a1a2", "h1h2", "a2a1", "h2h1", "a1a2"}, {"a2a1", "a1a2", "h2h1", "h1h2"}},
    };
}

static std::vector<std::string> alphabet(const Seed& s) {
    std::vector<std::string> a = {"undo", "redo", "@undo-all", "@redo-all", "draw rep", "draw 50", "draw accept", "resign"};
    for (auto& m : s.moves) { a.push_back(m); a.push_back("draw rep " + m); a.push_back("draw 50 " + m); a.push_back("draw offer " + m); }
    a.push_back(s.prefix[0]);            // "new" / "setpos F": back to the root
    a.push_back("setpos 8/8/8/8 w");     // invalid FEN: must change nothing
    return a;
}

/** Apply one alphabet letter (possibly a macro) to both; compare after every single command. */
static bool step(Game& g, Model& m, const std::string& letter, bool check, std::string& sig, std::string& detail) {
    std::vector<std::string> cmds;
    if (letter == "@undo-all") { for (int i = m.cur; i > 0; i--) cmds.push_back("undo"); }
    else if (letter == "@redo-all") { for (int i = m.cur; i < (int)m.ml.size(); i++) cmds.push_back("redo"); }
    else cmds.push_back(letter);
    for (auto& c : cmds) {
        bool rr = g.processString(c);
        bool rm = m.apply(c);
        if (check) { R.count("transitions"); if (!compare(g, m, rr, rm, sig, detail)) { detail = "after '" + c + "': " + detail; return false; } }
    }
    return true;
}

static std::string join(const std::vector<std::string>& v) { std::string s; for (auto& x : v) { if (!s.empty()) s += " | "; s += x; } return s; }

static void runHistory(const Seed& s, const std::vector<std::string>& ops, bool verbose) {
    Game g(std::make_unique<Stub>(), std::make_unique<Stub>()); Model m;
    std::string sig, detail;
    std::vector<std::string> all = s.prefix; for (auto& o : ops) all.push_back(o);
    for (auto& o : all) {
        if (!step(g, m, o, true, sig, detail)) { R.violation(sig, "seed " + s.name + " [" + join(all) + "] " + detail, "{}"); if (verbose) printf("FAIL %s: %s\n", sig.c_str(), detail.c_str()); return; }
        if (verbose) printf("  %-22s -> %s  state=%s offer=%d cur=%d/%zu\n", o.c_str(), TextIO::toFEN(g.getPos()).c_str(), stName(g.getGameState()), (int)g.haveDrawOffer(), g.currentMove, g.moveList.size());
    }
}

static void bfs(const Seed& s, int firstLetter, int depth) {
    std::vector<std::string> A = alphabet(s);
    typedef std::vector<unsigned char> Hist;
    std::unordered_set<std::string> seen;
    std::vector<Hist> frontier = {Hist{(unsigned char)firstLetter}};
    auto build = [&](const Hist& h, Game& g, Model& m, bool checkLast, std::string& sig, std::string& detail) -> bool {
        for (auto& o : s.prefix) { std::string a, b; if (!step(g, m, o, false, a, b)) return false; }
        for (size_t i = 0; i < h.size(); i++) if (!step(g, m, A[h[i]], checkLast && i + 1 == h.size(), sig, detail)) return false;
        return true;
    };
    auto opsOf = [&](const Hist& h) { std::vector<std::string> v; for (auto c : h) v.push_back(A[c]); return v; };
    // the root of this unit
    {
        Game g(std::make_unique<Stub>(), std::make_unique<Stub>()); Model m; std::string sig, detail;
        // prefix itself is checked command by command once (by the unit with first letter 0)
        if (firstLetter == 0) { Game g2(std::make_unique<Stub>(), std::make_unique<Stub>()); Model m2; for (auto& o : s.prefix) if (!step(g2, m2, o, true, sig, detail)) { R.violation(sig, "seed " + s.name + " prefix: " + detail, "{\"kind\":\"ops\",\"seed\":\"" + s.name + "\",\"ops\":\"\"}"); return; } }
        W->crumb(s.name + ": " + join(opsOf(frontier[0])));
        if (!build(frontier[0], g, m, true, sig, detail)) {
            R.violation(sig, "seed " + s.name + " [" + join(s.prefix) + " || " + join(opsOf(frontier[0])) + "] " + detail, "{\"kind\":\"ops\",\"seed\":\"" + s.name + "\",\"ops\":\"" + jsonEsc(join(opsOf(frontier[0]))) + "\"}");
            return;
        }
        seen.insert(realKey(g)); R.count("states");
    }
    for (int d = 2; d <= depth && !frontier.empty(); d++) {
        std::vector<Hist> next;
        for (auto& h : frontier) {
            if (W->dl.hit()) { R.exhaustive = false; return; }
            for (size_t a = 0; a < A.size(); a++) {
                Hist h2 = h; h2.push_back((unsigned char)a);
                Game g(std::make_unique<Stub>(), std::make_unique<Stub>()); Model m; std::string sig, detail;
                W->crumb(s.name + ": " + join(opsOf(h2)));
                R.count("evaluations");
                if (!build(h2, g, m, true, sig, detail)) {
                    R.violation(sig, "seed " + s.name + " [" + join(s.prefix) + " || " + join(opsOf(h2)) + "] " + detail, "{\"kind\":\"ops\",\"seed\":\"" + s.name + "\",\"ops\":\"" + jsonEsc(join(opsOf(h2))) + "\"}");
                    continue;   // do not expand a state in which model and implementation disagree
                }
                std::string k = realKey(g);
                if (seen.insert(k).second) {
                    R.count("states");
                    int st = m.state();
                    R.outcome(std::string(stName(st)) + (m.haveOffer() ? "+offer" : ""));
                    if (st != ALIVE || m.haveOffer() || m.cur < (int)m.ml.size()) R.count("nontrivial");
                    if (st == Game::DRAW_REP) R.count("rep_claims_accepted"); if (st == Game::DRAW_50) R.count("fifty_claims_accepted");
                    if (R.samples.size() < 4 && st == Game::DRAW_REP) R.sampleStr(s.name + ": " + join(opsOf(h2)));
                    next.push_back(h2);
                }
            }
        }
        R.maxOf("depth_completed", d);
        frontier.swap(next);
    }
}

int main(int argc, char** argv) {
    Worker w(argc, argv); W = &w;
    br::initTexel();
    std::cout.rdbuf(nullptr);   // Game chats on std::cout
    ComputerPlayer cp; CP = &cp;
    R.part = w.args.get("part", "game");
    int depth = (int)w.args.getInt("depth", 4);
    std::vector<Seed> S = seeds();
    if (w.args.has("replay") || w.args.has("ops")) {
        std::string seedName, ops;
        if (w.args.has("replay")) { std::string txt = readFile(w.args.get("replay")); seedName = jsonGetStr(txt, "seed"); ops = jsonGetStr(txt, "ops"); }
        else { seedName = w.args.get("seed"); ops = w.args.get("ops"); }
        std::vector<std::string> v; size_t p = 0;
        while (!ops.empty()) { size_t q = ops.find(" | ", p); v.push_back(ops.substr(p, q == std::string::npos ? std::string::npos : q - p)); if (q == std::string::npos) break; p = q + 3; }
        for (auto& s : S) if (s.name == seedName) runHistory(s, v, w.args.has("ops"));
        w.finish(R); return 0;
    }
    unsigned long long unit = 0;
    for (auto& s : S) {
        size_t nA = alphabet(s).size();
        for (size_t a = 0; a < nA; a++) { if (w.mine(unit++)) bfs(s, (int)a, depth); if (!R.exhaustive) break; }
        if (!R.exhaustive) break;
    }
    w.finish(R);
    return 0;
}

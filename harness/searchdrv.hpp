// Direct single-threaded search driver: builds a Search the way EngineControl::startThread / SearchTest do and runs
// iterativeDeepening on the calling thread, collecting every reported PV line (DESIGN.md 3.8, bulk search experiments).
#pragma once
#include "harness/bridge.hpp"
#include <functional>
#include "search.hpp"
#include "transpositionTable.hpp"
#include "parallel.hpp"
#include "clustertt.hpp"
#include "history.hpp"
#include "killerTable.hpp"
#include "treeLogger.hpp"
#include "evaluate.hpp"
#include "tbprobe.hpp"
#include "parameters.hpp"
#include "harness/evalsanity.hpp"

namespace sd {

struct PVLine {
    int depth = 0, score = 0;      // score: centipawns, or mate distance in moves if isMate (negative: being mated)
    bool isMate = false, upper = false, lower = false;
    std::vector<Move> pv;
    int multiPV = -1;
    S64 nodes = 0;
};

struct Collector : public Search::Listener {
    std::vector<PVLine> lines;
    int lastDepthStarted = 0;
    void notifyDepth(int depth) override { lastDepthStarted = depth; }
    void notifyCurrMove(const Move&, int) override {}
    void notifyPV(int depth, int score, S64, S64 nodes, S64, bool isMate, bool upperBound, bool lowerBound,
                  const std::vector<Move>& pv, int multiPVIndex, S64) override {
        PVLine l; l.depth = depth; l.score = score; l.isMate = isMate; l.upper = upperBound; l.lower = lowerBound; l.pv = pv; l.multiPV = multiPVIndex; l.nodes = nodes;
        lines.push_back(l);
    }
    void notifyStats(S64, S64, int, S64, S64) override {}
};

struct CountingStop : public Search::StopHandler {
    long long calls = 0, limit;
    explicit CountingStop(long long lim) : limit(lim) {}
    bool shouldStop() override { return ++calls > limit; }
};

/** Long-lived tables of one "engine" (transposition table, history, killers, eval tables). */
struct Env {
    TranspositionTable tt;
    Notifier notifier;
    ThreadCommunicator comm;
    KillerTable kt;
    History ht;
    std::unique_ptr<Evaluate::EvalHashTables> et;
    TreeLogger treeLog;
    Search::SearchTables st;
    explicit Env(U64 ttEntries)
        : tt(ttEntries), comm(nullptr, tt, notifier, false), et(Evaluate::getEvalHashTables()), st(comm.getCTT(), kt, ht, *et) {}
};

struct Params {
    int maxDepth = -1; S64 maxNodes = -1; int maxPV = 1; int minProbeDepth = 0;
    std::vector<Move> searchMoves;
    int strength = 1000; U64 randomSeed = 0; int maxNPS = 0;
    int whiteContempt = 0;
    bool clearHistory = false;
    long long stopAfterPolls = -1;       // counting stop handler (-1: none)
    std::vector<U64> history;            // zobrist hashes of earlier positions (repetition list)
    bool nextGeneration = true;
    int minTimeMs = -1, maxTimeMs = -1;  // Search::timeLimit (real milliseconds; -1 = none)
    std::function<void(Search&)> onSearchCreated;   // lets a harness keep a handle on the Search object (fault injection)
};

struct Outcome {
    Move best;
    std::vector<PVLine> lines;
    S64 nodes = 0;
    int rootMoves = 0;
    bool stopped = false;   // the counting stop handler ended the search
    /** Last line of the deepest iteration that is known to be complete (all lines if the search ended by itself). */
    const PVLine* finalCompleted() const {
        if (lines.empty()) return nullptr;
        if (!stopped) return &lines.back();
        int dmax = lines.back().depth;
        for (size_t i = lines.size(); i-- > 0;) if (lines[i].depth < dmax) return &lines[i];
        return nullptr;
    }
};

inline Outcome run(Env& env, const Position& pos, const Params& p) {
    Outcome out;
    std::vector<U64> hist = p.history;
    int histSize = (int)hist.size();
    hist.resize(histSize + SearchConst::MAX_SEARCH_DEPTH * 2);
    Search sc(pos, hist, histSize, env.st, env.comm, env.treeLog);
    Collector col;
    sc.setListener(col);
    sc.setStrength(p.strength, p.randomSeed, p.maxNPS);
    CountingStop* cs = nullptr;
    if (p.stopAfterPolls >= 0) { cs = new CountingStop(p.stopAfterPolls); sc.setStopHandler(std::unique_ptr<Search::StopHandler>(cs)); }
    MoveList moves;
    Position pos2(pos);
    MoveGen::pseudoLegalMoves(pos2, moves);
    MoveGen::removeIllegal(pos2, moves);
    if (!p.searchMoves.empty()) moves.filter(p.searchMoves);
    out.rootMoves = moves.size;
    sc.timeLimit(p.minTimeMs, p.maxTimeMs);
    if (p.onSearchCreated) p.onSearchCreated(sc);
    sc.setWhiteContempt(p.whiteContempt);
    if (p.nextGeneration) env.tt.nextGeneration();
    out.best = sc.iterativeDeepening(moves, p.maxDepth, p.maxNodes, p.maxPV, false, p.minProbeDepth, p.clearHistory);
    out.lines = col.lines;
    out.nodes = sc.getTotalNodes();
    out.stopped = cs && cs->calls > cs->limit;
    return out;
}

} // namespace sd

// Start-up self-test for every harness that evaluates positions: the build flavour must produce an evaluator that recomputes
// its clipped first-layer buffer on every evaluation (g++ 12 at -O2 drops those stores; the repository's own build uses -O3).
#pragma once
#include "evaluate.hpp"
#include "nneval.hpp"
#include "textio.hpp"
#include <cstring>
#include <cstdio>
#include <cstdlib>

namespace evs {
inline void check() {
    Position p = TextIO::readFEN("r3k2r/p1ppqpb1/bn2pnp1/3PN3/1p2P3/2N2Q1p/PPPBBPPP/R3K2R w KQkq - 0 1");
    int vals[2];
    for (int k = 0; k < 2; k++) {
        auto et = Evaluate::getEvalHashTables();
        NNEvaluator* nn = et->nnEval.get();
        memset((void*)&nn->l1OutClipped, k ? 0x55 : 0x00, sizeof(nn->l1OutClipped));
        Evaluate ev(*et); ev.connectPosition(p);
        vals[k] = ev.evalPos();
    }
    if (vals[0] != vals[1]) {
        fprintf(stderr, "[harness] evaluator self-test failed: the value depends on stale buffer content (%d vs %d); this build flavour miscompiles NNEvaluator::eval\n", vals[0], vals[1]);
        exit(2);
    }
}
}

// Shared harness plumbing: argument parsing, worker partitioning, result/evidence JSON, deadline.
#pragma once
#include <string>
#include <vector>
#include <map>
#include <set>
#include <cstdio>
#include <cstdlib>
#include <cstring>
#include <cstdint>
#include <chrono>
#include <fstream>
#include <sstream>
#include <functional>
#include <unistd.h>
#include <sys/wait.h>
#include <sys/mman.h>
#include <fcntl.h>

namespace vh {

inline std::string jsonEsc(const std::string& s) {
    std::string o;
    for (unsigned char c : s) {
        switch (c) {
        case '"': o += "\\\""; break;
        case '\\': o += "\\\\"; break;
        case '\n': o += "\\n"; break;
        case '\r': o += "\\r"; break;
        case '\t': o += "\\t"; break;
        default:
            if (c < 0x20 || c >= 0x7f) { char b[8]; snprintf(b, sizeof b, "\\u%04x", c); o += b; }
            else o += (char)c;
        }
    }
    return o;
}

struct Violation {
    std::string sig;     // machine readable signature (matched against known_findings.json)
    std::string detail;  // human readable
    std::string replay;  // JSON object text (without property), re-runnable by the harness
};

struct Args {
    std::map<std::string, std::string> kv;
    std::string get(const std::string& k, const std::string& d = "") const {
        auto it = kv.find(k); return it == kv.end() ? d : it->second;
    }
    long getInt(const std::string& k, long d) const {
        auto it = kv.find(k); return it == kv.end() ? d : atol(it->second.c_str());
    }
    bool has(const std::string& k) const { return kv.count(k) != 0; }
};

inline Args parseArgs(int argc, char** argv) {
    Args a;
    for (int i = 1; i < argc; i++) {
        std::string s = argv[i];
        if (s.rfind("--", 0) == 0) {
            std::string k = s.substr(2), v = "1";
            size_t eq = k.find('=');
            if (eq != std::string::npos) { v = k.substr(eq + 1); k = k.substr(0, eq); }
            else if (i + 1 < argc && strncmp(argv[i+1], "--", 2) != 0) v = argv[++i];
            a.kv[k] = v;
        }
    }
    return a;
}

/** Result of one harness process (one worker / one part). Written as one JSON object. */
struct Result {
    std::string part;                              // name of the part (e.g. "U-3")
    std::map<std::string, long long> counters;     // additive across workers
    std::map<std::string, long long> maxima;       // max across workers
    std::vector<std::string> samples;              // JSON values (already encoded)
    std::vector<Violation> violations;
    long long nViolations = 0;
    std::set<std::string> outcomes;                // distinct outcome strings (union across workers)
    bool exhaustive = true;                        // false if a deadline cut the enumeration
    std::string note;
    size_t maxViol = 50, maxSamples = 6;

    void count(const std::string& k, long long n = 1) { counters[k] += n; }
    void maxOf(const std::string& k, long long v) { auto& m = maxima[k]; if (v > m) m = v; }
    void sample(const std::string& json) { if (samples.size() < maxSamples) samples.push_back(json); }
    void sampleStr(const std::string& s) { sample("\"" + jsonEsc(s) + "\""); }
    void outcome(const std::string& s) { if (outcomes.size() < 2000) outcomes.insert(s); }
    void violation(const std::string& sig, const std::string& detail, const std::string& replayJson) {
        nViolations++;
        // keep at most a few per signature so that a flood of one kind does not hide another
        size_t same = 0;
        for (auto& v : violations) if (v.sig == sig) same++;
        if (same < 5 && violations.size() < maxViol) violations.push_back(Violation{sig, detail, replayJson});
    }

    std::string toJson() const {
        std::ostringstream o;
        o << "{\"part\":\"" << jsonEsc(part) << "\",\"exhaustive\":" << (exhaustive ? "true" : "false");
        o << ",\"note\":\"" << jsonEsc(note) << "\"";
        o << ",\"counters\":{";
        bool f = true;
        for (auto& kv : counters) { o << (f ? "" : ",") << "\"" << jsonEsc(kv.first) << "\":" << kv.second; f = false; }
        o << "},\"maxima\":{";
        f = true;
        for (auto& kv : maxima) { o << (f ? "" : ",") << "\"" << jsonEsc(kv.first) << "\":" << kv.second; f = false; }
        o << "},\"samples\":[";
        f = true;
        for (auto& s : samples) { o << (f ? "" : ",") << s; f = false; }
        o << "],\"outcomes\":[";
        f = true;
        for (auto& s : outcomes) { o << (f ? "" : ",") << "\"" << jsonEsc(s) << "\""; f = false; }
        o << "],\"n_violations\":" << nViolations << ",\"violations\":[";
        f = true;
        for (auto& v : violations) {
            o << (f ? "" : ",") << "{\"sig\":\"" << jsonEsc(v.sig) << "\",\"detail\":\"" << jsonEsc(v.detail)
              << "\",\"replay\":" << (v.replay.empty() ? "{}" : v.replay) << "}";
            f = false;
        }
        o << "]}";
        return o.str();
    }
    void write(const std::string& path) const {
        if (path.empty() || path == "-") { printf("%s\n", toJson().c_str()); return; }
        std::ofstream f(path); f << toJson() << "\n";
    }
};

/** Minimal extraction of a string / integer member from a flat JSON object text (replay files). */
inline std::string jsonGetStr(const std::string& text, const std::string& key, const std::string& def = "") {
    std::string pat = "\"" + key + "\"";
    size_t p = text.find(pat);
    if (p == std::string::npos) return def;
    p = text.find(':', p + pat.size());
    if (p == std::string::npos) return def;
    p = text.find('"', p);
    if (p == std::string::npos) return def;
    std::string out;
    for (size_t i = p + 1; i < text.size(); i++) {
        char c = text[i];
        if (c == '\\' && i + 1 < text.size()) {
            char d = text[++i];
            if (d == 'n') out += '\n'; else if (d == 't') out += '\t'; else if (d == 'r') out += '\r';
            else if (d == 'u' && i + 4 < text.size()) { out += (char)strtol(text.substr(i + 1, 4).c_str(), nullptr, 16); i += 4; }
            else out += d;
        } else if (c == '"') break;
        else out += c;
    }
    return out;
}
inline long jsonGetInt(const std::string& text, const std::string& key, long def = 0) {
    std::string pat = "\"" + key + "\"";
    size_t p = text.find(pat);
    if (p == std::string::npos) return def;
    p = text.find(':', p + pat.size());
    if (p == std::string::npos) return def;
    return atol(text.c_str() + p + 1);
}
inline std::string readFile(const std::string& path) {
    std::ifstream f(path, std::ios::binary); std::stringstream ss; ss << f.rdbuf(); return ss.str();
}

struct Deadline {
    std::chrono::steady_clock::time_point end;
    bool enabled = false;
    void set(double seconds) { enabled = seconds > 0; end = std::chrono::steady_clock::now() + std::chrono::milliseconds((long)(seconds * 1000)); }
    bool hit() const { return enabled && std::chrono::steady_clock::now() >= end; }
};

inline double nowS() {
    return std::chrono::duration<double>(std::chrono::steady_clock::now().time_since_epoch()).count();
}

/** Standard worker options: --worker i --nworkers n --out file --deadline s */
struct Worker {
    int idx = 0, n = 1;
    std::string out;
    Deadline dl;
    Args args;
    Worker(int argc, char** argv) {
        args = parseArgs(argc, argv);
        idx = (int)args.getInt("worker", 0);
        n = (int)args.getInt("nworkers", 1);
        out = args.get("out", "-");
        dl.set((double)args.getInt("deadline", 0));
    }
    bool mine(unsigned long long i) const { return (int)(i % (unsigned long long)n) == idx; }

    // Breadcrumb: the case currently being executed, kept in a shared file mapping so that the driver
    // can attribute a sanitizer abort / crash of this worker to a concrete input.
    char* crumbBuf = nullptr;
    void crumb(const std::string& s) {
        if (!crumbBuf) {
            if (out.empty() || out == "-") { static char dummy[4096]; crumbBuf = dummy; }
            else {
                std::string p = out + ".crumb";
                int fd = ::open(p.c_str(), O_RDWR | O_CREAT | O_TRUNC, 0644);
                if (fd < 0 || ftruncate(fd, 4096) != 0) { static char dummy[4096]; crumbBuf = dummy; }
                else crumbBuf = (char*)mmap(nullptr, 4096, PROT_READ | PROT_WRITE, MAP_SHARED, fd, 0);
            }
        }
        size_t n = s.size() < 4095 ? s.size() : 4095;
        memcpy(crumbBuf, s.data(), n); crumbBuf[n] = 0;
    }
    void finish(const Result& r) {
        r.write(out);
        if (!out.empty() && out != "-") ::unlink((out + ".crumb").c_str());
    }
};

} // namespace vh

// C06: time limits are honoured.
//  grid     : the real EngineControl::computeTimeLimit over the full product of boundary grids: 1 <= soft <= hard <= budget.
//  delivery : real UCI sessions under the controlled scheduler with a VIRTUAL clock that advances only with searched nodes
//             (ld --wrap of Position::makeMove adds `rate` microseconds per move made by the search) and with sleeps:
//             bestmove arrives no later than the budget (movetime, resp. clock - min(BufferTime, 0.9 clock)) plus one polling interval;
//             after stop / ponderhit with exhausted limits, within one polling interval of the limit-changing Search::timeLimit call
//             (ld --wrap records its return time); stop / ponderhit are injected after every polling index 1..k.
#include "harness/common.hpp"
#include "harness/session.hpp"
#include "sched/vsched.h"
#include "searchparams.hpp"

using namespace vh;
static Result R;
static Worker* W;

// ---- seams
static int NTHREADS = 1;                       // Threads option of the timed sessions
static long long RATE_US = 1;                   // virtual microseconds per move made by the search
struct Shared { VsTrace tr; long long tlReturn[256]; int nTl; long long makeMoves; };
static Shared* SH = nullptr;
extern "C" void __real__ZN8Position8makeMoveERK4MoveR8UndoInfo(Position*, const Move&, UndoInfo&);
extern "C" void __wrap__ZN8Position8makeMoveERK4MoveR8UndoInfo(Position* self, const Move& m, UndoInfo& ui) {
    __real__ZN8Position8makeMoveERK4MoveR8UndoInfo(self, m, ui);
    // virtual time is the work of the main search thread: with helpers, the serialising scheduler would otherwise let a helper "use up" time
    // while the main thread is not even scheduled, which no parallel machine does
    if (vs_active() && (NTHREADS == 1 || (ses::engineTidSet && pthread_equal(pthread_self(), ses::engineTid)))) { vs_advance_us_wake(RATE_US); if (SH) SH->makeMoves++; }
}
extern "C" void __real__ZN6Search9timeLimitEiiil(Search*, int, int, int, S64);
extern "C" void __wrap__ZN6Search9timeLimitEiiil(Search* self, int a, int b, int c, S64 d) {
    __real__ZN6Search9timeLimitEiiil(self, a, b, c, d);
    if (vs_active() && SH && SH->nTl < 256) SH->tlReturn[SH->nTl++] = vs_now_us();
}

// ---------------------------------------------------------------- grid
// computeTimeLimit is private: tolerate the side to move being passed in instead of read from the object (the call is only a seam)
template <class EC> static auto callComputeTimeLimit(EC& ec, const SearchParams& sp, int) -> decltype(ec.computeTimeLimit(sp), void()) { ec.computeTimeLimit(sp); }
template <class EC> static auto callComputeTimeLimit(EC& ec, const SearchParams& sp, long) -> decltype(ec.computeTimeLimit(sp, true), void()) { ec.computeTimeLimit(sp, ec.pos.isWhiteMove()); }

static void grid() {
    std::ostringstream os; SearchListener sl(os); EngineMainThread emt; EngineControl ec(os, emt, sl);
    const std::vector<int> times = {1, 2, 9, 10, 11, 99, 100, 101, 999, 1000, 1001, 1999, 2000, 10000, 100000, 1000000, 10000000};
    const std::vector<int> incs = {0, 1, 10, 999, 10000, 100000};
    const std::vector<int> mtg = {0, 1, 2, 3, 34, 35, 36, 100};
    const std::vector<int> bufs = {1, 10, 1000, 10000};
    const std::vector<int> mts = {1, 10, 1000, 100000};
    Position wpos = TextIO::readFEN(TextIO::startPosFEN), bpos = TextIO::readFEN("rnbqkbnr/pppppppp/8/8/4P3/8/PPPP1PPP/RNBQKBNR b KQkq - 0 1");
    unsigned long long id = 0;
    for (int buf : bufs) for (int ponder = 0; ponder < 2; ponder++) {
        Parameters::instance().set("BufferTime", num2Str(buf)); UciParams::ponder->set(ponder ? "true" : "false");
        for (int side = 0; side < 2; side++) {
            ec.pos = side == 0 ? wpos : bpos;
            for (int wt : times) for (int bt : times) {
                if (!W->mine(id++)) continue;
                for (int wi : incs) for (int bi : incs) for (int m : mtg) {
                    SearchParams sp(0); sp.wTime = wt; sp.bTime = bt; sp.wInc = wi; sp.bInc = bi; sp.movesToGo = m;
                    callComputeTimeLimit(ec, sp, 0);
                    int time = side == 0 ? wt : bt;
                    int budget = time - std::min(buf, time * 9 / 10);
                    R.count("states"); R.count("transitions");
                    int soft = ec.minTimeLimit, hard = ec.maxTimeLimit;
                    if (budget != time) R.count("nontrivial");
                    if (!(1 <= soft && soft <= hard && hard <= budget)) {
                        char b[256]; snprintf(b, sizeof b, "side=%d wtime=%d btime=%d winc=%d binc=%d movestogo=%d BufferTime=%d Ponder=%d -> soft=%d hard=%d budget=%d", side, wt, bt, wi, bi, m, buf, ponder, soft, hard, budget);
                        R.violation("limits-not-ordered-within-budget", b, std::string("{\"kind\":\"input\",\"case\":\"") + b + "\"}");
                    }
                }
            }
            if (W->idx == 0) for (int mt : mts) {
                SearchParams sp(0); sp.moveTime = mt; sp.wTime = 5; sp.bTime = 5;
                callComputeTimeLimit(ec, sp, 0);
                R.count("states"); R.count("transitions");
                if (!(ec.minTimeLimit == mt && ec.maxTimeLimit == mt)) R.violation("movetime-limits", "movetime " + std::to_string(mt) + " -> " + std::to_string(ec.minTimeLimit) + "/" + std::to_string(ec.maxTimeLimit), "{}");
            }
        }
    }
    Parameters::instance().set("BufferTime", "1000"); UciParams::ponder->set("false");
}

// ---------------------------------------------------------------- delivery
struct Line { long long us; std::string text; };
static int TIMEOUT_S = 40;     // a timed session normally takes well under 5 s of wall-clock time
static ses::Transcript runTimed(const std::vector<std::string>& script, std::vector<Line>& lines) {
    ses::Transcript t;
    int pfd[2], efd[2];
    if (pipe(pfd) != 0 || pipe(efd) != 0) { t.exitStatus = -1; return t; }
    memset(SH, 0, sizeof(int) * 8); SH->tr.result = -1; SH->nTl = 0; SH->makeMoves = 0;
    fflush(nullptr);
    pid_t pid = fork();
    if (pid == 0) {
        close(pfd[0]); close(efd[0]); dup2(efd[1], 2);
        int devnull = open("/dev/null", O_WRONLY); if (devnull >= 0) dup2(devnull, 1);
        ses::lineStamp = vs_now_us;
        vs_set_query_us(0);
        vs_begin(nullptr, 0, &SH->tr, 0, 50000000);   // scheduling points and clock queries are free: only searched nodes and sleeps take time
        ses::runScriptInChild(script, pfd[1], TIMEOUT_S);
        vs_end();
        _exit(0);
    }
    close(pfd[1]); close(efd[1]);
    std::string buf, ebuf; char tmp[65536];
    struct pollfd fds[2] = {{pfd[0], POLLIN, 0}, {efd[0], POLLIN, 0}}; int open_ = 2;
    while (open_ > 0) { if (poll(fds, 2, 1000) < 0) break; for (int i = 0; i < 2; i++) { if (fds[i].fd < 0) continue; if (fds[i].revents & (POLLIN | POLLHUP | POLLERR)) { ssize_t n = read(fds[i].fd, tmp, sizeof tmp); if (n > 0) (i == 0 ? buf : ebuf).append(tmp, (size_t)n); else { close(fds[i].fd); fds[i].fd = -1; open_--; } } } }
    int st = 0; waitpid(pid, &st, 0);
    if (WIFEXITED(st)) t.exitStatus = WEXITSTATUS(st); else if (WIFSIGNALED(st)) { t.signalled = true; t.sig = WTERMSIG(st); if (t.sig == SIGALRM) t.timedOut = true; }
    std::istringstream is(buf); std::string l;
    while (std::getline(is, l)) {
        long long us = 0; std::string text = l;
        if (!l.empty() && l[0] == '@') { size_t sp = l.find(' '); us = atoll(l.c_str() + 1); text = sp == std::string::npos ? "" : l.substr(sp + 1); }
        lines.push_back(Line{us, text}); t.lines.push_back(text);
    }
    t.stderrTail = ebuf.size() > 3000 ? ebuf.substr(ebuf.size() - 3000) : ebuf;
    return t;
}

static unsigned long long caseId = 0;
struct TC { std::string go; long long budgetMs; };   // budgetMs < 0: no self-termination expected

static void deliver(const std::string& opts, const std::string& pos, const TC& tc, int injectAfterPolls, const std::string& inject) {
    unsigned long long id = caseId++;
    if (!W->mine(id)) return;
    if (W->dl.hit()) { R.exhaustive = false; return; }
    std::vector<std::string> script;
    { std::istringstream is(opts); std::string o; while (std::getline(is, o, ';')) if (!o.empty()) script.push_back(o); }
    script.push_back("setoption name Threads value " + std::to_string(NTHREADS));
    script.push_back("isready"); script.push_back("@await readyok");
    script.push_back(pos); script.push_back(tc.go);
    // the injected command arrives after (500 + 613 k) searched nodes' worth of virtual time: every phase of the 1000-node polling interval
    if (!inject.empty()) { script.push_back("@usleep " + std::to_string((500 + 613LL * injectAfterPolls) * RATE_US)); script.push_back(inject); }
    script.push_back("@await bestmove"); script.push_back("quit");
    std::string sstr; for (auto& l : script) { if (!sstr.empty()) sstr += " | "; sstr += l; }
    W->crumb(sstr);
    std::vector<Line> lines;
    ses::Transcript t = runTimed(script, lines);
    if (t.timedOut) { R.count("reruns_after_wall_clock_limit"); TIMEOUT_S = 400; lines.clear(); t = runTimed(script, lines); TIMEOUT_S = 40; }   // deterministic run: only a slow machine can make it hit the limit
    ses::Analysis a = ses::analyse(t, true);
    R.count("states"); R.count("transitions", (long long)lines.size());
    std::string rep = "{\"kind\":\"ops\",\"script\":\"" + jsonEsc(sstr) + "\",\"rate\":" + std::to_string(RATE_US) + ",\"threads\":" + std::to_string(NTHREADS) + "}";
    for (auto& f : a.findings) R.violation("session:" + f.sig, sstr + " : " + f.detail.substr(0, 400), rep);
    if (SH->tr.result != VS_OK) { R.violation(SH->tr.result == VS_DEADLOCK ? "deadlock" : "livelock-or-horizon", sstr + " : " + SH->tr.message, rep); return; }
    long long tGo = -1, tBest = -1, tInject = -1;
    for (auto& l : lines) {
        if (l.text.rfind("> go", 0) == 0) tGo = l.us;
        if (!inject.empty() && l.text == "> " + inject) tInject = l.us;
        if (l.text.rfind("bestmove", 0) == 0) tBest = l.us;
    }
    if (tGo < 0 || tBest < 0) return;
    // nominal polling interval: the clock is tested when the node countdown (1000) expires at the next full-width node; factor 2 for the quiescence subtree in between
    // With MaxNPS the engine tests the clock every MaxNPS/100 nodes and sleeps to hold the node rate, so one polling interval lasts
    // (MaxNPS/100 nodes) x (1/MaxNPS s per node) = 10 ms of mostly slept time on top of the work itself
    long long nodesBetween = 1000, perNodeUs = RATE_US;
    { size_t mp = opts.find("MaxNPS value "); if (mp != std::string::npos) { long long nps = atoll(opts.c_str() + mp + 13); if (nps > 0) { nodesBetween = std::max(1LL, std::min(1000LL, nps / 100)); perNodeUs = RATE_US + 1000000 / nps; } } }
    long long I = 2 * nodesBetween * perNodeUs + 1000;
    long long elapsed = tBest - tGo;
    R.maxOf("max_elapsed_us", elapsed);
    bool endedByLimit = false;
    if (tc.budgetMs >= 0 && inject.empty()) {
        endedByLimit = elapsed > tc.budgetMs * 1000 / 4;
        if (elapsed > tc.budgetMs * 1000 + I)
            R.violation("bestmove-later-than-budget", sstr + " : elapsed " + std::to_string(elapsed) + " us > budget " + std::to_string(tc.budgetMs) + " ms + polling interval " + std::to_string(I) + " us (rate " + std::to_string(RATE_US) + " us/node)", rep);
    }
    if (!inject.empty() && SH->nTl > 0) {
        // latency from the return of the last limit-changing Search::timeLimit call (stop: (0,0); ponderhit: the computed limits)
        long long tl = -1;
        for (int i = 0; i < SH->nTl; i++) if (SH->tlReturn[i] >= tInject) { tl = SH->tlReturn[i]; break; }   // the call made by this stop / ponderhit (later ones belong to quit)
        if (tl < 0) { R.violation("no-limit-change-after-" + inject, sstr, rep); return; }
        long long lat = tBest - tl;
        long long allowance = I + 10000;    // + the 10 ms release loop of ponder / infinite searches
        R.maxOf("max_stop_latency_us", lat); if (lat > 100 * RATE_US) R.count("stops_landing_mid_interval");
        endedByLimit = true;
        bool limitsExhausted = inject == "stop" || (tc.budgetMs >= 0 && (tl - tGo) >= tc.budgetMs * 1000);
        if (limitsExhausted && lat > allowance)
            R.violation("bestmove-late-after-" + inject, sstr + " : " + std::to_string(lat) + " us after the limit change > " + std::to_string(allowance) + " us (rate " + std::to_string(RATE_US) + " us/node)", rep);
        if (inject == "ponderhit" && tc.budgetMs >= 0 && tBest - tInject > tc.budgetMs * 1000 + I + 10000)
            R.violation("bestmove-later-than-budget-after-ponderhit", sstr + " : " + std::to_string(tBest - tInject) + " us after ponderhit", rep);
    }
    if (endedByLimit) R.count("nontrivial");
    R.count("searched_moves", SH->makeMoves);
    R.outcome(std::string(inject.empty() ? "self" : inject) + (endedByLimit ? ":limit" : ":early"));
    if (R.samples.size() < 3 && endedByLimit) R.sampleStr(sstr + " -> elapsed " + std::to_string(elapsed) + " us");
}

static void delivery(bool thorough) {
    const std::vector<std::string> positions = {
        "position fen 7k/8/6KQ/8/8/8/8/8 b - - 0 1",                                   // one legal move
        "position fen 8/8/8/8/8/5k2/4p3/4K3 w - - 0 1",                               // KPK
        "position startpos",
        "position fen r1bq1rk1/pp2bppp/2n1pn2/2pp4/3P1B2/2PBPN2/PP1N1PPP/R2QK2R w KQ - 2 8",
        "position startpos moves e2e4",                                                  // black to move, reached through the move list
        "position fen rnbqkbnr/pppppppp/8/8/4P3/8/PPPP1PPP/RNBQKBNR b KQkq - 0 1 moves e7e5 g1f3 b8c6",   // black base position, odd number of moves: white to move
    };
    std::vector<std::string> optsets = {"", "setoption name BufferTime value 1", "setoption name Ponder value true", "setoption name MaxNPS value 1000", "setoption name BufferTime value 10000", "setoption name MaxNPS value 20000"};
    if (!thorough) optsets.resize(4);
    auto clockBudget = [](int time, int buf) { return (long long)(time - std::min(buf, time * 9 / 10)); };
    for (size_t oi = 0; oi < optsets.size(); oi++) {
        int buf = optsets[oi].find("BufferTime value 10000") != std::string::npos ? 10000 : optsets[oi].find("BufferTime value 1") != std::string::npos ? 1 : 1000;
        for (auto& pos : positions) {
            bool wtm = pos.find(" b ") == std::string::npos;
            { size_t mp = pos.find(" moves "); if (mp != std::string::npos) { int n = 0; std::istringstream ms(pos.substr(mp + 7)); std::string t; while (ms >> t) n++; if (n & 1) wtm = !wtm; } }
            std::vector<TC> tcs;
            for (int mt : {1, 10, 50, 300}) tcs.push_back(TC{"go movetime " + std::to_string(mt), mt});
            for (int t : {10, 100, 1200, 2300}) for (int mtg : {0, 1, 2, 35}) for (int inc : {0, 50}) {
                std::string g = "go wtime " + std::to_string(t) + " btime " + std::to_string(t) + (inc ? " winc " + std::to_string(inc) + " binc " + std::to_string(inc) : "") + (mtg ? " movestogo " + std::to_string(mtg) : "");
                                tcs.push_back(TC{g, clockBudget(t, buf)});
            }
            if (thorough) for (int t : {5000}) for (int mtg : {1, 3}) tcs.push_back(TC{"go wtime " + std::to_string(t) + " btime " + std::to_string(t) + " movestogo " + std::to_string(mtg), clockBudget(t, buf)});
            // the two clocks differ: the budget is the MOVER's (a root reached through "moves" has the other side to move than the base position)
            for (int big : {60000, 1200}) for (int small : {40, 300}) for (int moverHasSmall = 0; moverHasSmall < 2; moverHasSmall++) {
                int mine = moverHasSmall ? small : big, other = moverHasSmall ? big : small;
                int wt = wtm ? mine : other, bt = wtm ? other : mine;
                if (mine > 2500) continue;   // keep the sessions short: a mover with a minute on the clock is covered by the allocation grid
                tcs.push_back(TC{"go wtime " + std::to_string(wt) + " btime " + std::to_string(bt), clockBudget(mine, buf)});
                tcs.push_back(TC{"go wtime " + std::to_string(wt) + " btime " + std::to_string(bt) + " winc 20 binc 20 movestogo 3", clockBudget(mine, buf)});
            }
            for (auto& tc : tcs) {
                // quick tier: budgets worth more than 400 000 searched nodes are left to the coarser rates (a second is a million nodes at 1 us/node)
                if (!thorough && tc.budgetMs * 1000 / RATE_US > 400000) continue;
                deliver(optsets[oi], pos, tc, 0, "");
            }
        }
    }
    // stop / ponderhit injected after k virtual milliseconds of searching (k = every polling index 1..K at rate 1 us/node)
    int K = thorough ? 24 : 10;
    for (auto& pos : {positions[1], positions[2]}) for (int k = 1; k <= K; k++) {
        deliver("", pos, TC{"go infinite", -1}, k, "stop");
        deliver("", pos, TC{"go wtime 100000 btime 100000", -1}, k, "stop");
        deliver("setoption name Ponder value true", pos, TC{"go ponder wtime 100 btime 100", 100 - 90}, k * 3, "ponderhit");   // limits (about 2-5 ms) are exhausted when the ponderhit arrives late
        deliver("setoption name Ponder value true", pos, TC{"go ponder wtime 3000 btime 3000", -1}, k, "stop");
    }
}

int main(int argc, char** argv) {
    Worker w(argc, argv); W = &w;
    ses::warm();
    UciParams::hash->set("1");
    SH = (Shared*)mmap(nullptr, sizeof(Shared), PROT_READ | PROT_WRITE, MAP_SHARED | MAP_ANONYMOUS, -1, 0);
    std::string part = w.args.get("part", "grid");
    R.part = part;
    RATE_US = w.args.getInt("rate", 1);
    NTHREADS = (int)w.args.getInt("threads", 1);
    bool thorough = w.args.get("tier", "quick") == "thorough";
    if (w.args.has("replay")) {
        std::string txt = readFile(w.args.get("replay"));
        std::string sc = jsonGetStr(txt, "script"); RATE_US = jsonGetInt(txt, "rate", 1); NTHREADS = (int)jsonGetInt(txt, "threads", 1);
        std::vector<std::string> s; size_t p = 0;
        while (!sc.empty()) { size_t q = sc.find(" | ", p); s.push_back(sc.substr(p, q == std::string::npos ? std::string::npos : q - p)); if (q == std::string::npos) break; p = q + 3; }
        std::vector<Line> lines; ses::Transcript t = runTimed(s, lines);
        for (auto& l : lines) fprintf(stderr, "@%lld %s\n", l.us, l.text.c_str());
        for (int i = 0; i < SH->nTl; i++) fprintf(stderr, "timeLimit call %d returned at %lld us\n", i, SH->tlReturn[i]);
        w.finish(R); return 0;
    }
    if (part == "grid") grid();
    else if (part == "delivery") delivery(thorough);
    else return 2;
    R.count("evaluations", R.counters["states"]);
    w.finish(R);
    return 0;
}

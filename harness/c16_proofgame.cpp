// C16: reachable positions are never declared illegal; proof games are valid; the distance heuristic is a lower bound.
//  filter : every distinct position within k plies of the initial position and every position of a fixed corpus of legal games
//           (>= 26 men) goes through ProofGameFilter::filterFens; verdict "illegal" is a violation; every emitted path:/proof: move
//           sequence is replayed by the independent oracle.
//  iter   : filterFensIterated (kernel -> path -> proof game search) on the <= 2-ply universe and a corpus slice; proof games must
//           be legal from the initial position and end exactly in the goal.
//  bound  : for every game of the tree / corpus and every pair i < j, distLowerBound(P_i -> P_j) <= j - i.
#include "harness/common.hpp"
#include "harness/bridge.hpp"
#include "oracle/universes.hpp"
#include "proofgame.hpp"
#include "proofgamefilter.hpp"
#include <climits>

using namespace vh;
static Result R;
static Worker* W;

struct Quiet {   // ProofGameFilter logs to std::clog / std::cout
    std::stringstream a, b; std::streambuf *oc, *ol;
    Quiet() { oc = std::cout.rdbuf(a.rdbuf()); ol = std::clog.rdbuf(b.rdbuf()); }
    ~Quiet() { std::cout.rdbuf(oc); std::clog.rdbuf(ol); }
};

/** Fixed corpus of legal games: deterministic LCG walks from the initial position (a fixed driver, not a run-time sample). */
static std::vector<std::vector<orc::Mv>> corpus(int nGames, int maxPlies) {
    std::vector<std::vector<orc::Mv>> games;
    unsigned long long lcg = 0x2545F4914F6CDD1DULL;
    for (int g = 0; g < nGames; g++) {
        orc::Board b = orc::startPos();
        std::vector<orc::Mv> mv;
        for (int ply = 0; ply < maxPlies; ply++) {
            std::vector<orc::Mv> lm = orc::legalMoves(b);
            if (lm.empty()) break;
            lcg = lcg * 6364136223846793005ULL + 1442695040888963407ULL;
            // five fixed styles (game index mod 5): 3/4 = one side storms with its pawns (prefers pawn moves), the other manoeuvres quietly
            // behind unmoved pawns (blocked / deadlocked-piece analysis of the distance heuristic becomes active); 0 uniform; 1 every third choice prefers captures / pawn moves / castling;
            // 2 prefers quiet piece and king moves (long manoeuvring games that keep >= 26 men, kings wander)
            orc::Mv m = lm[(size_t)((lcg >> 33) % lm.size())];
            int style = g % 5;
            if (style == 1 && (lcg >> 20) % 3 == 0) { std::vector<orc::Mv> sp; for (auto& x : lm) if (orc::isCapture(b, x) || orc::typeOf(b.sq[x.from]) == 6 || (orc::typeOf(b.sq[x.from]) == 1 && abs(x.to - x.from) == 2)) sp.push_back(x); if (!sp.empty()) m = sp[(size_t)((lcg >> 40) % sp.size())]; }
            if (style >= 3) {
                bool stormer = (style == 3) == b.wtm;
                std::vector<orc::Mv> sp;
                for (auto& x : lm) { bool pawn = orc::typeOf(b.sq[x.from]) == 6; if (stormer ? pawn : (!pawn && !orc::isCapture(b, x))) sp.push_back(x); }
                if (!sp.empty() && (lcg >> 20) % 5 != 0) m = sp[(size_t)((lcg >> 40) % sp.size())];
            }
            if (style == 2 && (lcg >> 20) % 4 != 0) { std::vector<orc::Mv> sp; for (auto& x : lm) if (!orc::isCapture(b, x) && orc::typeOf(b.sq[x.from]) != 6) sp.push_back(x); if (!sp.empty()) m = sp[(size_t)((lcg >> 40) % sp.size())]; }
            orc::Board n = orc::apply(b, m);
            if (n.nMen() < 26) break;
            mv.push_back(m); b = n;
        }
        games.push_back(mv);
    }
    return games;
}

static std::string fenNorm(const orc::Board& b) { return orc::toFEN(orc::normalised(b)); }

static bool replayFromStart(const std::vector<std::string>& moves, orc::Board& end, std::string& err) {
    Position pos = TextIO::readFEN(TextIO::startPosFEN);
    orc::Board b = orc::startPos();
    for (auto& s : moves) {
        // the tool prints moves in short algebraic notation; convert with the oracle's own SAN writer
        bool found = false;
        for (auto& m : orc::legalMoves(b)) {
            std::string a = orc::san(b, m);
            std::string t = s;
            auto strip = [](std::string x) { std::string o; for (char c : x) if (c != '+' && c != '#' && c != '=') o += c; return o; };
            if (strip(a) == strip(t) || orc::uci(m) == t) { b = orc::apply(b, m); found = true; break; }
        }
        if (!found) { err = "move '" + s + "' not legal in " + orc::toFEN(b); return false; }
    }
    end = b; return true;
}

static void judgeOutput(const std::string& out, const std::map<std::string, std::string>& reachable, bool expectAll) {
    std::istringstream is(out); std::string line;
    std::set<std::string> seen;
    while (std::getline(is, line)) {
        std::vector<std::string> tok; { std::istringstream ls(line); std::string t; while (ls >> t) tok.push_back(t); }
        if (tok.size() < 7) continue;
        std::string fen; for (int i = 0; i < 6; i++) { if (i) fen += ' '; fen += tok[i]; }
        seen.insert(fen);
        R.count("states");
        std::string status; std::map<std::string, std::vector<std::string>> data; std::string cur;
        for (size_t i = 6; i < tok.size(); i++) { if (tok[i].back() == ':') { cur = tok[i].substr(0, tok[i].size() - 1); data[cur]; } else data[cur].push_back(tok[i]); }
        auto rep = [&]() { auto it = reachable.find(fen); return "{\"kind\":\"input\",\"fen\":\"" + jsonEsc(fen) + "\",\"game\":\"" + (it == reachable.end() ? "" : it->second) + "\"}"; };
        if (data.count("illegal")) R.violation("reachable-position-declared-illegal", fen + " : " + line.substr(fen.size()).substr(0, 300), rep());
        R.outcome(data.count("illegal") ? "illegal" : data.count("legal") ? "legal" : data.count("fail") ? "unknown-fail" : data.count("path") ? "unknown-path" : data.count("kernel") ? "unknown-kernel" : "unknown");
        for (const char* key : {"path", "proof"}) {
            if (!data.count(key)) continue;
            R.count("transitions");
            orc::Board end; std::string err;
            if (!replayFromStart(data[key], end, err)) { R.violation(std::string(key) + "-contains-illegal-move", fen + " : " + err, rep()); continue; }
            if (std::string(key) == "proof") {
                R.count("proof_games"); R.count("nontrivial");
                orc::Board goal; orc::fromFEN(fen, goal);
                if (orc::stateKey(orc::normalised(end), false) != orc::stateKey(orc::normalised(goal), false))
                    R.violation("proof-game-does-not-end-in-goal", fen + " proof ends in " + orc::toFEN(end), rep());
            } else R.count("paths");
        }
    }
    if (expectAll) for (auto& kv : reachable) if (!seen.count(kv.first)) R.violation("filter-dropped-position", kv.first, "{}");
}

/** positions (FEN with counters) -> how reached */
static void collectTree(int plies, const uni::Part& P, std::map<std::string, std::string>& out) {
    std::set<std::string> dedupe;
    std::function<void(const orc::Board&, int, std::string)> rec = [&](const orc::Board& b, int d, std::string path) {
        std::string key = orc::stateKey(orc::normalised(b), false);
        if (d > 0 && dedupe.insert(key).second) out[fenNorm(b)] = path;
        if (d == plies) return;
        for (auto& m : orc::legalMoves(b)) rec(orc::apply(b, m), d + 1, path + (path.empty() ? "" : " ") + orc::uci(m));
    };
    rec(orc::startPos(), 0, "");
    // distribute
    std::map<std::string, std::string> mine; unsigned long long i = 0;
    for (auto& kv : out) if (P.mine(i++)) mine.insert(kv);
    out.swap(mine);
}

static void filterPart(int plies, int nGames, int every) {
    uni::Part P{W->idx, W->n};
    std::map<std::string, std::string> reach;
    if (plies > 0) collectTree(plies, P, reach);
    if (nGames > 0) {
        auto games = corpus(nGames, 150);
        unsigned long long i = 0;
        for (auto& g : games) { orc::Board b = orc::startPos(); std::string path; int ply = 0; for (auto& m : g) { b = orc::apply(b, m); path += (path.empty() ? "" : " ") + orc::uci(m); ply++; if (ply % every == 0 && P.mine(i++)) reach[fenNorm(b)] = path; } }
    }
    std::string in; for (auto& kv : reach) in += kv.first + "\n";
    W->crumb("filterFens on " + std::to_string(reach.size()) + " positions, first " + (reach.empty() ? "" : reach.begin()->first));
    std::istringstream is(in); std::ostringstream os;
    { Quiet q; ProofGameFilter pgf(1, 0, false); pgf.filterFens(is, os, false); }
    judgeOutput(os.str(), reach, true);
    if (R.samples.size() < 2 && !reach.empty()) R.sampleStr(reach.begin()->first + " via " + reach.begin()->second);
}

static void iterPart(int plies, int nGames) {
    uni::Part P{W->idx, W->n};
    std::map<std::string, std::string> reach;
    if (plies > 0) collectTree(plies, P, reach);
    if (nGames > 0) { auto games = corpus(nGames, 12); unsigned long long i = 0; for (auto& g : games) { orc::Board b = orc::startPos(); std::string path; for (auto& m : g) { b = orc::apply(b, m); path += (path.empty() ? "" : " ") + orc::uci(m); } if (P.mine(i++)) reach[fenNorm(b)] = path; } }
    std::string in; for (auto& kv : reach) in += kv.first + "\n";
    std::string base = W->out + ".iter";
    std::istringstream is(in);
    W->crumb("filterFensIterated on " + std::to_string(reach.size()) + " positions");
    { Quiet q; ProofGameFilter pgf(1, 0, false); pgf.filterFensIterated(is, base, false); }
    // last written iteration file holds the final status of every position
    std::string last;
    for (int it = 0; it < 100; it++) { char n[16]; snprintf(n, sizeof n, "%02d", it); std::string f = base + n; std::string c = readFile(f); if (c.empty() && it > 0) { ::unlink(f.c_str()); break; } if (!c.empty()) last = c; ::unlink(f.c_str()); }
    judgeOutput(last, reach, true);
}

static void boundPart(int plies, int nGames, int maxGap) {
    uni::Part P{W->idx, W->n};
    std::vector<std::vector<orc::Mv>> lines;
    if (plies > 0) {
        // every root-to-leaf line of the depth-`plies` tree (each pair (ancestor, descendant) lies on some line)
        std::vector<orc::Mv> cur; unsigned long long i = 0;
        std::function<void(const orc::Board&, int)> rec = [&](const orc::Board& b, int d) {
            if (d == plies) { if (P.mine(i++)) lines.push_back(cur); return; }
            auto lm = orc::legalMoves(b); if (lm.empty()) { if (P.mine(i++)) lines.push_back(cur); return; }
            for (auto& m : lm) { cur.push_back(m); rec(orc::apply(b, m), d + 1); cur.pop_back(); }
        };
        rec(orc::startPos(), 0);
    }
    if (nGames > 0) { auto games = corpus(nGames, 150); unsigned long long i = 0; for (auto& g : games) if (P.mine(i++)) lines.push_back(g); }
    std::set<std::string> donePairs;
    std::stringstream sink;
    for (auto& line : lines) {
        std::vector<orc::Board> pos = {orc::startPos()};
        for (auto& m : line) pos.push_back(orc::apply(pos.back(), m));
        int n = (int)pos.size();
        for (int j = 1; j < n; j++) {
            std::string goalFen = fenNorm(pos[(size_t)j]);
            std::unique_ptr<ProofGame> pg;
            for (int i = std::max(0, j - maxGap); i < j; i++) {
                std::string key = orc::stateKey(orc::normalised(pos[(size_t)i]), false) + ">" + orc::stateKey(orc::normalised(pos[(size_t)j]), false);
                if (plies > 0 && !donePairs.insert(key).second) continue;
                if (!pg) { W->crumb("bound goal " + goalFen); try { pg.reset(new ProofGame(TextIO::startPosFEN, goalFen, false, {}, false, sink)); } catch (const ChessError& e) { R.violation("proofgame-constructor-rejects-reachable-goal", goalFen + " : " + e.what(), "{}"); break; } }
                Position p = TextIO::readFEN(fenNorm(pos[(size_t)i]));
                int bound = pg->distLowerBound(p);
                R.count("states"); R.count("transitions");
                int remaining = j - i;
                bool castling = false, ep = false, special = false;
                for (int k = i; k < j; k++) { const orc::Mv& m = line[(size_t)k]; const orc::Board& b = pos[(size_t)k];
                    if (orc::typeOf(b.sq[m.from]) == 1 && abs(m.to - m.from) == 2) castling = true;
                    if (orc::typeOf(b.sq[m.from]) == 6 && m.to == b.ep && orc::X(m.from) != orc::X(m.to) && !b.sq[m.to]) ep = true;
                    if (orc::isCapture(b, m) || (orc::typeOf(b.sq[m.from]) == 6 && abs(m.to - m.from) != 8)) special = true; }
                if (special) R.count("nontrivial");
                if (bound > remaining) {
                    std::string gm; for (int k = 0; k < j; k++) gm += (k ? " " : "") + orc::uci(line[(size_t)k]);
                    std::string sig = castling ? "bound-exceeds-remaining:path-contains-castling" : ep ? "bound-exceeds-remaining:path-contains-ep-capture" : "bound-exceeds-remaining";
                    R.violation(sig, "game [" + gm + "] from ply " + std::to_string(i) + " to ply " + std::to_string(j) + ": bound " + (bound == INT_MAX ? std::string("INT_MAX") : std::to_string(bound)) + " > remaining " + std::to_string(remaining),
                                "{\"kind\":\"ops\",\"game\":\"" + gm + "\",\"from\":" + std::to_string(i) + ",\"to\":" + std::to_string(j) + "}");
                }
                if (castling) R.count("pairs_with_castling"); if (ep) R.count("pairs_with_ep");
            }
            if ((j & 7) == 0 && W->dl.hit()) { R.exhaustive = false; return; }
        }
    }
}

int main(int argc, char** argv) {
    Worker w(argc, argv); W = &w;
    br::initTexel();
    std::string part = w.args.get("part", "filter");
    R.part = part;
    if (w.args.has("replay")) {
        std::string txt = readFile(w.args.get("replay"));
        std::string game = jsonGetStr(txt, "game"), fen = jsonGetStr(txt, "fen");
        if (!game.empty() && txt.find("\"from\"") != std::string::npos) {
            // bound replay
            std::vector<orc::Board> pos = {orc::startPos()}; std::istringstream is(game); std::string m;
            while (is >> m) { orc::Mv mv; bool f = false; for (auto& x : orc::legalMoves(pos.back())) if (orc::uci(x) == m) { mv = x; f = true; } if (!f) return 2; pos.push_back(orc::apply(pos.back(), mv)); }
            int i = (int)jsonGetInt(txt, "from", 0), j = (int)jsonGetInt(txt, "to", 1);
            std::stringstream sink; ProofGame pg(TextIO::startPosFEN, fenNorm(pos[(size_t)j]), false, {}, false, sink);
            Position p = TextIO::readFEN(fenNorm(pos[(size_t)i]));
            int bound = pg.distLowerBound(p);
            if (bound > j - i) R.violation("bound-exceeds-remaining", game, "{}");
        } else if (!fen.empty()) {
            std::map<std::string, std::string> reach; reach[fen] = game;
            std::istringstream is(fen + "\n"); std::ostringstream os;
            { Quiet q; ProofGameFilter pgf(1, 0, false); pgf.filterFens(is, os, false); }
            judgeOutput(os.str(), reach, true);
        }
        w.finish(R); return 0;
    }
    if (part == "filter") filterPart((int)w.args.getInt("plies", 3), (int)w.args.getInt("games", 0), (int)w.args.getInt("every", 4));
    else if (part == "iter") iterPart((int)w.args.getInt("plies", 2), (int)w.args.getInt("games", 0));
    else if (part == "bound") boundPart((int)w.args.getInt("plies", 0), (int)w.args.getInt("games", 0), (int)w.args.getInt("gap", 1000));
    else return 2;
    R.count("evaluations", R.counters["states"]);
    w.finish(R);
    return 0;
}

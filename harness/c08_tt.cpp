// C08: transposition table never returns mixed or out-of-range data.
//  slots : 2-3 threads x 1-2 operations on one 4-slot bucket of the real TranspositionTable; ALL sequentially consistent
//          interleavings of the atomic loads/stores (fiber scheduler, state caching, no preemption bound)
//  weak  : relaxed-memory over-approximation: every per-word mixture of values ever stored by a writers-only program, real probe on each
//  history: every sequential insert/probe/generation/clear/setBusy history up to a depth on one bucket; every slot must decode to a stored record
//  ply   : setScore(s,p)/getScore(p') for every s, p, p'
//  index : getIndex stays inside the used part for every configurable size x key prefixes (arithmetic sweep), and for really
//          allocated tables with a resident on-demand tablebase (real reSize + updateTB): index range + tablebase bytes untouched
#include "harness/common.hpp"
#include "harness/bridge.hpp"
#include "transpositionTable.hpp"
#include "tbgen.hpp"
#include "sched/fiber.hpp"

using namespace vh;
static Result R;
static Worker* W;

extern "C" void verif_atomic_point(int, const void*) { fib::point(); }   // every atomic access (also relaxed) is a scheduling point here
extern "C" void verif_atomic_read(unsigned long long v) { fib::noteRead(v); }

typedef TranspositionTable TT;

// ---------------------------------------------------------------- slots
struct Rec { U64 key; int move; int score; int depth; int type; int eval; };
struct OpSpec { char kind; int keyIdx; Rec rec; };    // 'I' insert rec, 'P' probe key

static std::string recStr(const Rec& r) { char b[120]; snprintf(b, sizeof b, "k%llx m%d s%d d%d t%d e%d", (unsigned long long)r.key, r.move, r.score, r.depth, r.type, r.eval); return b; }

static void slots(int nThreads, int opsPerThread, int initKind, long maxSched) {
    // three keys forced into one bucket: equal index bits (top 16 bits and low bits), different middle bits
    const U64 K[3] = {0x1234000000100040ULL, 0x1234000000200040ULL, 0x1234000000300040ULL};
    TT tt(512);
    // alphabet of operations per thread slot
    std::vector<OpSpec> alpha;
    int recNo = 0;
    auto mkRec = [&](int ki) { recNo++; return Rec{K[ki], 100 + recNo * 7, 10 * recNo + ki, 3 + recNo % 5, 1 + recNo % 3, -50 + recNo}; };
    for (int ki = 0; ki < 2; ki++) { alpha.push_back(OpSpec{'I', ki, mkRec(ki)}); alpha.push_back(OpSpec{'P', ki, Rec{K[ki], 0, 0, 0, 0, 0}}); }
    alpha.push_back(OpSpec{'I', 2, mkRec(2)});
    alpha.push_back(OpSpec{'I', 0, Rec{K[0], 0, 77, 9, TType::T_EXACT, 5}});   // insert with empty move (keeps an earlier move)
    alpha.push_back(OpSpec{'I', 1, Rec{K[1], 155, 33, 5, TType::T_LE, SearchConst::UNKNOWN_SCORE}});   // insert without a static evaluation (what the search stores when it has none)
    int nOps = nThreads * opsPerThread;
    std::vector<int> sel(nOps, 0);
    unsigned long long progId = 0;
    while (true) {
        // canonical: thread programs in non-decreasing lexicographic order (threads are symmetric)
        bool canon = true;
        for (int t = 1; t < nThreads && canon; t++) {
            std::vector<int> a(sel.begin() + (t - 1) * opsPerThread, sel.begin() + t * opsPerThread), b(sel.begin() + t * opsPerThread, sel.begin() + (t + 1) * opsPerThread);
            if (b < a) canon = false;
        }
        bool hasInsert = false, hasProbe = false;
        for (int x : sel) { if (alpha[x].kind == 'I') hasInsert = true; else hasProbe = true; }
        if (canon && hasInsert && hasProbe && W->mine(progId++)) {
            // ---- one program: explore all interleavings
            std::vector<Rec> stored;        // every record ever passed to insert (plus initial contents)
            std::vector<std::pair<int, TT::TTEntry>> results;   // (op index, probe result)
            std::vector<Rec> initial;
            fib::Explorer ex;
            ex.maxSchedules = (size_t)maxSched;
            ex.stop = [&]() { return W->dl.hit(); };
            auto putInit = [&]() {
                tt.clear();
                initial.clear();
                if (initKind == 1) {   // bucket full of other keys
                    for (int i = 0; i < 4; i++) { Rec r{0x1234000000000040ULL + ((U64)(i + 8) << 20), 900 + i, 500 + i, 4, TType::T_GE, i}; Move m; m.setFromCompressed((U16)r.move); m.setScore(r.score); tt.insert(r.key, m, r.type, 0, r.depth, r.eval); initial.push_back(r); }
                } else if (initKind == 2) {   // contains K0 from an older generation
                    Rec r{K[0], 321, 42, 6, TType::T_EXACT, 11}; Move m; m.setFromCompressed((U16)r.move); m.setScore(r.score); tt.insert(r.key, m, r.type, 0, r.depth, r.eval); initial.push_back(r);
                    tt.nextGeneration();
                }
            };
            ex.setup = [&]() {
                putInit();
                results.clear();
                std::vector<std::function<void()>> bodies;
                for (int t = 0; t < nThreads; t++) bodies.push_back([&, t]() {
                    for (int j = 0; j < opsPerThread; j++) {
                        int oi = t * opsPerThread + j; const OpSpec& o = alpha[sel[oi]];
                        if (o.kind == 'I') { Move m; m.setFromCompressed((U16)o.rec.move); m.setScore(o.rec.score); tt.insert(o.rec.key, m, o.rec.type, 0, o.rec.depth, o.rec.eval); }
                        else { TT::TTEntry e; tt.probe(o.rec.key, e); results.push_back({oi, e}); }
                    }
                });
                return bodies;
            };
            ex.sharedState = [&]() {
                size_t idx = tt.getIndex(K[0]);
                std::string s; s.resize(64);
                for (int i = 0; i < 4; i++) { U64 a = tt.table[idx + i].key.v.load(), b = tt.table[idx + i].data.v.load(); memcpy(&s[i * 16], &a, 8); memcpy(&s[i * 16 + 8], &b, 8); }
                return s;
            };
            auto matches = [&](const TT::TTEntry& e, const Rec& r, const std::vector<Rec>& all) {
                if (e.getKey() != r.key) return false;
                if (e.getScore(0) != r.score || e.getDepth() != r.depth || e.getType() != r.type || e.getEvalScore() != r.eval) return false;
                Move m; e.getMove(m);
                if (r.move != 0) return (int)m.getCompressedMove() == r.move;
                // record inserted with an empty move: the move is that of an earlier record for the same key (or empty)
                if (m.getCompressedMove() == 0) return true;
                for (auto& o : all) if (o.key == r.key && o.move == (int)m.getCompressedMove()) return true;
                return false;
            };
            std::string progStr; for (int i = 0; i < nOps; i++) { progStr += (i % opsPerThread == 0 ? " T" + std::to_string(i / opsPerThread) + ":" : ","); progStr += alpha[sel[i]].kind; progStr += std::to_string(alpha[sel[i]].keyIdx); }
            ex.atEnd = [&](const std::vector<int>& choices) {
                std::vector<Rec> all = initial;
                for (int i = 0; i < nOps; i++) if (alpha[sel[i]].kind == 'I') all.push_back(alpha[sel[i]].rec);
                auto judge = [&](const TT::TTEntry& e, U64 key, const std::string& what) {
                    if (e.getType() == TType::T_EMPTY) return;
                    bool ok = false; for (auto& r : all) if (r.key == key && matches(e, r, all)) ok = true;
                    if (!ok) {
                        std::string sch; for (int c : choices) sch += std::to_string(c);
                        Move m; e.getMove(m);
                        R.violation("probe-returned-record-never-stored", what + " prog" + progStr + " init" + std::to_string(initKind) + " schedule " + sch + " got key " + std::to_string(e.getKey()) +
                                    " m" + std::to_string(m.getCompressedMove()) + " s" + std::to_string(e.getScore(0)) + " d" + std::to_string(e.getDepth()) + " t" + std::to_string(e.getType()) + " e" + std::to_string(e.getEvalScore()),
                                    "{\"kind\":\"schedule\",\"prog\":\"" + progStr + "\",\"init\":" + std::to_string(initKind) + ",\"choices\":\"" + sch + "\"}");
                    }
                };
                for (auto& pr : results) { judge(pr.second, alpha[sel[pr.first]].rec.key, "probe"); if (pr.second.getType() != TType::T_EMPTY) R.count("probe_hits"); else R.count("probe_misses"); }
                // final bucket: a sequential probe of every key of the alphabet returns a miss or a stored record
                for (int ki = 0; ki < 3; ki++) { TT::TTEntry e; tt.probe(K[ki], e); judge(e, K[ki], "final-probe"); }
            };
            ex.explore();
            R.count("states", (long long)ex.states); R.count("transitions", (long long)ex.transitions); R.count("schedules", (long long)ex.schedules); R.count("pruned", (long long)ex.pruned);
            R.count("programs"); R.count("nontrivial", (long long)ex.states);
            R.maxOf("max_points_per_schedule", (long long)ex.maxPoints);
            if (ex.capped) { R.exhaustive = false; R.count("capped_programs"); }
            if (R.samples.size() < 3) R.sampleStr("prog" + progStr + " init" + std::to_string(initKind) + " schedules=" + std::to_string(ex.schedules) + " states=" + std::to_string(ex.states));
            if (W->dl.hit()) { R.exhaustive = false; return; }
        }
        int k = nOps - 1;
        while (k >= 0 && ++sel[k] == (int)alpha.size()) { sel[k] = 0; k--; }
        if (k < 0) break;
    }
}

// ---------------------------------------------------------------- weak memory (relaxed accesses): per-location product
// The slot words are written and read with memory_order_relaxed, so a probe may combine, for every word separately, ANY value that
// some writer stored there (per-location coherence is all the C++ model guarantees for a single relaxed load). Model: the set of values
// each of the 8 words of the bucket ever holds during ALL interleavings of a writers-only program (collected from the real inserts
// under the fiber explorer); every element of the product of these sets is installed in the bucket and the real probe is run on it.
static bool recMatches(const TT::TTEntry& e, const Rec& r, const std::vector<Rec>& all) {
    if (e.getKey() != r.key) return false;
    if (e.getScore(0) != r.score || e.getDepth() != r.depth || e.getType() != r.type || e.getEvalScore() != r.eval) return false;
    Move m; e.getMove(m);
    if (r.move != 0) return (int)m.getCompressedMove() == r.move;
    if (m.getCompressedMove() == 0) return true;
    for (auto& o : all) if (o.key == r.key && o.move == (int)m.getCompressedMove()) return true;
    return false;
}

static void weakProduct(int nThreads, int opsPerThread, int initKind, long maxCombos) {
    const U64 K[3] = {0x1234000000100040ULL, 0x1234000000200040ULL, 0x1234000000300040ULL};
    TT tt(512);
    std::vector<Rec> alpha;
    int recNo = 0;
    auto mkRec = [&](int ki) { recNo++; return Rec{K[ki], 100 + recNo * 7, 10 * recNo + ki, 3 + recNo % 5, 1 + recNo % 3, -50 + recNo}; };
    alpha.push_back(mkRec(0)); alpha.push_back(mkRec(1)); alpha.push_back(mkRec(2)); alpha.push_back(mkRec(0));
    alpha.push_back(Rec{K[0], 0, 77, 9, TType::T_EXACT, 5});
    int nOps = nThreads * opsPerThread;
    std::vector<int> sel(nOps, 0);
    unsigned long long progId = 0;
    while (true) {
        bool canon = true;
        for (int t = 1; t < nThreads && canon; t++) {
            std::vector<int> a(sel.begin() + (t - 1) * opsPerThread, sel.begin() + t * opsPerThread), b(sel.begin() + t * opsPerThread, sel.begin() + (t + 1) * opsPerThread);
            if (b < a) canon = false;
        }
        if (canon && W->mine(progId++)) {
            std::vector<Rec> initial;
            std::set<U64> vals[8];
            size_t idx = tt.getIndex(K[0]);
            fib::Explorer ex;
            ex.setup = [&]() {
                tt.clear(); initial.clear();
                if (initKind == 1) { for (int i = 0; i < 4; i++) { Rec r{0x1234000000000040ULL + ((U64)(i + 8) << 20), 900 + i, 500 + i, 4, TType::T_GE, i}; Move m; m.setFromCompressed((U16)r.move); m.setScore(r.score); tt.insert(r.key, m, r.type, 0, r.depth, r.eval); initial.push_back(r); } }
                else if (initKind == 2) { Rec r{K[0], 321, 42, 6, TType::T_EXACT, 11}; Move m; m.setFromCompressed((U16)r.move); m.setScore(r.score); tt.insert(r.key, m, r.type, 0, r.depth, r.eval); initial.push_back(r); tt.nextGeneration(); }
                std::vector<std::function<void()>> bodies;
                for (int t = 0; t < nThreads; t++) bodies.push_back([&, t]() {
                    for (int j = 0; j < opsPerThread; j++) { const Rec& r = alpha[sel[t * opsPerThread + j]]; Move m; m.setFromCompressed((U16)r.move); m.setScore(r.score); tt.insert(r.key, m, r.type, 0, r.depth, r.eval); }
                });
                return bodies;
            };
            ex.sharedState = [&]() {
                std::string s; s.resize(64);
                for (int i = 0; i < 4; i++) { U64 a = tt.table[idx + i].key.v.load(), b = tt.table[idx + i].data.v.load(); memcpy(&s[i * 16], &a, 8); memcpy(&s[i * 16 + 8], &b, 8); vals[2 * i].insert(a); vals[2 * i + 1].insert(b); }
                return s;
            };
            ex.atEnd = [&](const std::vector<int>&) { ex.sharedState(); };
            ex.stop = [&]() { return W->dl.hit(); };
            ex.explore();
            if (ex.capped) { R.exhaustive = false; R.count("capped_programs"); return; }   // value sets incomplete: no product for this program
            std::vector<Rec> all = initial; for (int x : sel) all.push_back(alpha[x]);
            std::vector<std::vector<U64>> v(8); double prod = 1; for (int i = 0; i < 8; i++) { v[i].assign(vals[i].begin(), vals[i].end()); prod *= (double)v[i].size(); }
            R.count("programs"); R.count("transitions", (long long)ex.transitions); R.maxOf("max_product", (long long)prod);
            std::string progStr; for (int i = 0; i < nOps; i++) { progStr += (i % opsPerThread == 0 ? " T" + std::to_string(i / opsPerThread) + ":" : ","); progStr += "I" + std::to_string(sel[i]); }
            if (maxCombos && prod > (double)maxCombos) { R.exhaustive = false; R.count("capped_programs"); }
            else {
                std::vector<size_t> c(8, 0);
                unsigned long long nCombos = 0;
                while (true) {
                    int mixed = 0;
                    if ((++nCombos & 0xFFFF) == 0 && W->dl.hit()) { R.exhaustive = false; R.count("capped_programs"); break; }
                    for (int i = 0; i < 4; i++) { tt.table[idx + i].key.v.store(v[2 * i][c[2 * i]]); tt.table[idx + i].data.v.store(v[2 * i + 1][c[2 * i + 1]]); }
                    U64 snap[8]; for (int i = 0; i < 4; i++) { snap[2 * i] = v[2 * i][c[2 * i]]; snap[2 * i + 1] = v[2 * i + 1][c[2 * i + 1]]; }
                    for (int ki = 0; ki < 3; ki++) {
                        for (int i = 0; i < 4; i++) { tt.table[idx + i].key.v.store(snap[2 * i]); tt.table[idx + i].data.v.store(snap[2 * i + 1]); }   // a probe may refresh the generation
                        TT::TTEntry e; tt.probe(K[ki], e);
                        R.count("states");
                        if (e.getType() == TType::T_EMPTY) { R.count("probe_misses"); continue; }
                        R.count("probe_hits");
                        bool ok = false; for (auto& r : all) if (r.key == K[ki] && recMatches(e, r, all)) ok = true;
                        if (!ok) {
                            Move m; e.getMove(m);
                            std::string words; for (int i = 0; i < 8; i++) { char b[24]; snprintf(b, sizeof b, "%016llx ", (unsigned long long)snap[i]); words += b; }
                            R.violation("probe-returned-record-never-stored:relaxed-mixture", "writers" + progStr + " init" + std::to_string(initKind) + " bucket words " + words + " probe K" + std::to_string(ki) +
                                        " got m" + std::to_string(m.getCompressedMove()) + " s" + std::to_string(e.getScore(0)) + " d" + std::to_string(e.getDepth()) + " t" + std::to_string(e.getType()) + " e" + std::to_string(e.getEvalScore()),
                                        "{\"kind\":\"input\",\"prog\":\"" + progStr + "\",\"words\":\"" + words + "\"}");
                        }
                    }
                    (void)mixed;
                    int k = 7; while (k >= 0 && ++c[(size_t)k] == v[(size_t)k].size()) { c[(size_t)k] = 0; k--; }
                    if (k < 0) break;
                }
                R.count("nontrivial", (long long)prod);
            }
            if (R.samples.size() < 3) R.sampleStr("writers" + progStr + " init" + std::to_string(initKind) + " per-word value counts " + [&]() { std::string t; for (int i = 0; i < 8; i++) t += std::to_string(v[i].size()) + " "; return t; }());
            if (W->dl.hit()) { R.exhaustive = false; return; }
        }
        int k = nOps - 1;
        while (k >= 0 && ++sel[k] == (int)alpha.size()) { sel[k] = 0; k--; }
        if (k < 0) break;
    }
}


// ---------------------------------------------------------------- sequential histories on one bucket
// "arbitrary insert/probe/clear/generation histories": explicit-state search over operation sequences on one bucket of the real table.
// The state of a bucket is exactly its 8 words + the table generation (+ the set of records handed to insert so far, which the oracle
// needs), so states are restored by writing those words back. Oracle after EVERY operation: each non-empty slot decodes (key word xor
// data word) to a key and a record that were stored together, the real probe of that decoded key returns that record, and every probe
// of the alphabet returns a miss or a record stored for its key. Without concurrency there are no torn slots, so any slot that decodes to
// something never stored is a blend that a probe of the decoded key would return.
static void histories(int maxDepth) {
    const U64 K[3] = {0x1234000000100040ULL, 0x1234000000200040ULL, 0x1234000000300040ULL};
    TT tt(512);
    size_t idx = tt.getIndex(K[0]);
    std::vector<Rec> recs;
    int recNo = 0;
    auto mkRec = [&](int ki) { recNo++; return Rec{K[ki], 100 + recNo * 7, 10 * recNo + ki, 3 + recNo % 5, 1 + recNo % 3, -50 + recNo}; };
    recs.push_back(mkRec(0)); recs.push_back(mkRec(1)); recs.push_back(mkRec(2)); recs.push_back(mkRec(0));
    recs.push_back(Rec{K[0], 0, 77, 9, TType::T_EXACT, 5});                                  // empty move: keeps the stored move
    recs.push_back(Rec{K[1], 155, 33, 5, TType::T_LE, SearchConst::UNKNOWN_SCORE});          // no static evaluation
    recs.push_back(Rec{K[0], 121, 11, 1, recs[0].type, 9});                                  // shallower, same type as rec 0 (may be refused)
    recs.push_back(Rec{K[1], 131, SearchConst::MATE0 - 12, 6, TType::T_GE, 3});              // mate score
    for (int i = 0; i < 4; i++) recs.push_back(Rec{0x1234000000000040ULL + ((U64)(i + 8) << 20), 900 + i, 500 + i, 2 + i, TType::T_GE, i});   // four fillers: bucket pressure
    const int nRec = (int)recs.size();
    // operations: 0..nRec-1 insert, then probe K0..K2, then G (next generation), C (clear), B (setBusy on K0 if present)
    const int opProbe = nRec, opGen = nRec + 3, opClear = nRec + 4, opBusy = nRec + 5, nOps = nRec + 6;
    struct State { U64 w[8]; int gen; unsigned mask; };
    auto install = [&](const State& st) { for (int i = 0; i < 4; i++) { tt.table[idx + i].key.v.store(st.w[2 * i]); tt.table[idx + i].data.v.store(st.w[2 * i + 1]); } tt.generation = (U8)st.gen; };
    auto snapshot = [&](unsigned mask) { State st; for (int i = 0; i < 4; i++) { st.w[2 * i] = tt.table[idx + i].key.v.load(); st.w[2 * i + 1] = tt.table[idx + i].data.v.load(); } st.gen = tt.generation; st.mask = mask; return st; };
    auto keyOf = [&](const State& st) { std::string k((const char*)st.w, 64); k += (char)st.gen; k.append((const char*)&st.mask, 4); return k; };
    auto opName = [&](int o) { return o < nRec ? "I" + std::to_string(o) : o < opGen ? "P" + std::to_string(o - opProbe) : o == opGen ? std::string("G") : o == opClear ? std::string("C") : std::string("B"); };
    tt.clear();
    std::vector<std::pair<State, std::string>> frontier{{snapshot(0), ""}}, next;
    std::set<std::string> seen{keyOf(frontier[0].first)};
    unsigned long long expandId = 0, pollCtr = 0;
    for (int depth = 1; depth <= maxDepth; depth++) {
        next.clear();
        for (auto& fr : frontier) {
            // the first two levels are expanded by every worker (shared prefix); the states of the third level are dealt round-robin, and from then
            // on every worker expands all descendants of its share (a state reached from two shares is expanded by both: redundant, never lost)
            if (depth == 3 && !W->mine(expandId++)) continue;
            for (int o = 0; o < nOps; o++) {
                install(fr.first);
                unsigned mask = fr.first.mask;
                std::string hist = fr.second + (fr.second.empty() ? "" : " ") + opName(o);
                std::vector<Rec> all; for (int r = 0; r < nRec; r++) if (mask & (1u << r)) all.push_back(recs[r]);
                TT::TTEntry pres; bool probed = false; U64 pkey = 0;
                if (o < nRec) { const Rec& r = recs[o]; Move m; m.setFromCompressed((U16)r.move); m.setScore(r.score); tt.insert(r.key, m, r.type, 0, r.depth, r.eval); mask |= 1u << o; all.push_back(r); }
                else if (o < opGen) { pkey = K[o - opProbe]; tt.probe(pkey, pres); probed = true; }
                else if (o == opGen) tt.nextGeneration();
                else if (o == opClear) { tt.clear(); }
                else { TT::TTEntry e; tt.probe(K[0], e); if (e.getType() == TType::T_EMPTY) continue; tt.setBusy(e, 0); }
                R.count("transitions");
                std::string rep = "{\"kind\":\"input\",\"history\":\"" + hist + "\"}";
                auto describe = [&](const TT::TTEntry& e) { Move m; e.getMove(m); char b[160]; snprintf(b, sizeof b, "key %llx m%d s%d d%d t%d e%d gen%d", (unsigned long long)e.getKey(), m.getCompressedMove(), e.getScore(0), e.getDepth(), e.getType(), e.getEvalScore(), e.getGeneration()); return std::string(b); };
                auto stored = [&](const TT::TTEntry& e, U64 key) { for (auto& r : all) if (r.key == key && recMatches(e, r, all)) return true; return false; };
                if (probed) { if (pres.getType() != TType::T_EMPTY) { R.count("probe_hits"); if (!stored(pres, pkey)) R.violation("probe-returned-record-never-stored:history", "history [" + hist + "] probe returns " + describe(pres), rep); } else R.count("probe_misses"); }
                State after = snapshot(mask);
                for (int i = 0; i < 4; i++) {
                    if (after.w[2 * i] == 0 && after.w[2 * i + 1] == 0) continue;
                    TT::TTEntry e; e.load(tt.table[idx + i]);
                    if (e.getType() == TType::T_EMPTY) continue;
                    R.count("slots_decoded");
                    if (!stored(e, e.getKey())) { R.violation("slot-decodes-to-record-never-stored", "history [" + hist + "] slot " + std::to_string(i) + " holds " + describe(e), rep); continue; }
                    // what the slot decodes to is what a probe of that key gets: run the real probe on a copy of the state
                    TT::TTEntry pe; tt.probe(e.getKey(), pe);
                    if (pe.getType() != TType::T_EMPTY && !stored(pe, e.getKey())) R.violation("probe-returned-record-never-stored:history", "history [" + hist + "] probe of the key in slot " + std::to_string(i) + " returns " + describe(pe), rep);
                    install(after);   // the probe may have refreshed a generation
                }
                if (o == opClear) for (int i = 0; i < 8; i++) if (after.w[i]) R.violation("clear-leaves-data", "history [" + hist + "]", rep);
                std::string k = keyOf(after);
                if (seen.insert(k).second) { R.count("states"); if (mask) R.count("nontrivial"); if (depth < maxDepth) next.push_back({after, hist}); }
            }
            if ((++pollCtr & 0x3ff) == 0 && W->dl.hit()) { R.exhaustive = false; return; }
        }
        frontier.swap(next);
        R.maxOf("max_depth", depth);
        R.outcome("depth" + std::to_string(depth) + ":frontier" + std::to_string(frontier.size() / 100));
        if (frontier.empty()) break;
    }
}

// ---------------------------------------------------------------- ply shift
static void plyShift() {
    unsigned long long id = 0;
    for (int s = -32767; s <= 32767; s++) {
        if (!W->mine(id++)) continue;
        bool win = SearchConst::isWinScore(s), lose = SearchConst::isLoseScore(s);
        for (int p = 0; p <= 200; p++) {
            TT::TTEntry e; e.setScore(s, p);
            int stored = (S16)e.getBits(16, 16);
            int expectStored = win ? s + p : lose ? s - p : s;
            if (expectStored > 32767 || expectStored < -32768) continue;   // not representable: outside the score domain (|score| <= MATE0)
            if (abs(s) > SearchConst::MATE0) continue;
            R.count("states");
            if (stored != expectStored) { R.violation("setScore", std::to_string(s) + "@" + std::to_string(p), "{}"); continue; }
            for (int q = 0; q <= 200; q++) {
                int g = e.getScore(q);
                int expect = (win || lose) ? (SearchConst::isWinScore(stored) ? stored - q : SearchConst::isLoseScore(stored) ? stored + q : stored) : s;
                // a mate score stored at ply p and read at ply q is shifted by exactly p - q
                if ((win && g != s + p - q) || (lose && g != s - p + q) || (!win && !lose && g != s) || g != expect)
                    R.violation("ply-shift", "score " + std::to_string(s) + " stored at ply " + std::to_string(p) + " read at ply " + std::to_string(q) + " gives " + std::to_string(g), "{\"kind\":\"input\",\"score\":" + std::to_string(s) + "}");
                R.count("transitions");
            }
            if (win || lose) R.count("nontrivial");
        }
    }
}

// ---------------------------------------------------------------- setBusy keeps the record
/** TranspositionTable::setBusy re-stores an entry with the busy flag; the record read back at the same ply must be unchanged (mate scores included). */
static void busyKeepsRecord() {
    TT tt(512);
    unsigned long long id = 0;
    for (int s = -32000; s <= 32000; s += (abs(s) >= SearchConst::MATE0 - 300 ? 1 : 997)) {
        if (!W->mine(id++)) continue;
        for (int p = 0; p <= 40; p += (p < 16 ? 1 : 8)) {
            bool win = SearchConst::isWinScore(s), lose = SearchConst::isLoseScore(s);
            if ((win && s + p > 32767) || (lose && s - p < -32767) || abs(s) > SearchConst::MATE0) continue;
            U64 key = 0x5a5a000000000040ULL + ((U64)(unsigned)(s + 40000) << 20) + (U64)p;
            Move m(Square(12), Square(28), 0); m.setScore(s);
            tt.insert(key, m, TType::T_EXACT, p, 9, 17);
            TT::TTEntry e; tt.probe(key, e);
            if (e.getType() == TType::T_EMPTY) continue;
            tt.setBusy(e, p);
            TT::TTEntry e2; tt.probe(key, e2);
            R.count("states"); R.count("transitions", 3); if (win || lose) R.count("nontrivial");
            if (e2.getType() == TType::T_EMPTY || e2.getScore(p) != s || e2.getDepth() != 9 || e2.getEvalScore() != 17 || e2.getType() != TType::T_EXACT)
                R.violation("setBusy-changes-record", "score " + std::to_string(s) + " at ply " + std::to_string(p) + " reads back " + (e2.getType() == TType::T_EMPTY ? std::string("nothing") : std::to_string(e2.getScore(p))), "{\"kind\":\"input\",\"score\":" + std::to_string(s) + ",\"ply\":" + std::to_string(p) + "}");
        }
    }
}

// ---------------------------------------------------------------- index range
static std::vector<U64> keyPatterns(U64 mask48) {
    std::vector<U64> lows = {0, mask48, 0xAAAAAAAAAAAAULL & mask48, 0x555555555555ULL & mask48};
    for (int b = 0; b < 48; b += 1) lows.push_back(1ULL << b);
    return lows;
}

static void indexSweep(bool thorough) {
    const U64 tb = 5 * 1024 * 1024 / 16;
    std::vector<U64> sizes;
    for (U64 mb = 1; mb <= 1024; mb++) { sizes.push_back(mb * 65536); if (mb * 65536 > tb + 2 * 65536) sizes.push_back(mb * 65536 - tb); }
    for (int sh = 0; sh <= 20; sh++) { U64 n = ((U64)1 << sh) * 65536; sizes.push_back(n); if (n > tb + 131072) sizes.push_back(n - tb); }
    for (U64 n : {(U64)256, (U64)512, (U64)1024, (U64)32 * 1024, (U64)128 * 1024, (U64)512 * 1024, (U64)2 * 1024 * 1024, (U64)128 * 1024 * 1024}) if (n >= 512) sizes.push_back(n);
    for (U64 n = 512; n <= (thorough ? 70000u : 9000u); n += 4) sizes.push_back(n);
    TT tt(512);
    unsigned long long id = 0;
    std::vector<U64> lows = keyPatterns(0xFFFFFFFFFFFFULL);
    if (!thorough) lows.resize(12);
    for (U64 n : sizes) {
        if (!W->mine(id++)) continue;
        n &= ~3ULL;
        tt.setUsedSize(n);
        R.count("states");
        bool bad = false;
        for (U64 hi = 0; hi < 65536 && !bad; hi++) for (U64 lo : lows) {
            U64 key = (hi << 48) | lo;
            size_t idx = tt.getIndex(key);
            R.count("transitions");
            if (idx + 3 >= n || (idx & 3)) { R.violation("index-out-of-range", "usedSize " + std::to_string(n) + " key " + std::to_string(key) + " idx " + std::to_string(idx), "{\"kind\":\"input\",\"size\":" + std::to_string(n) + "}"); bad = true; break; }
        }
        if ((n & (n - 1)) != 0) R.count("nontrivial");
    }
    tt.setUsedSize(512);
}

/** Real tables: reSize(Hash MB) + real updateTB; index range against the reduced used size; tablebase bytes untouched by hash traffic. */
static void realTables(const std::vector<int>& mbs, bool fourMen) {
    unsigned long long id = 0;
    std::vector<U64> lows = keyPatterns(0xFFFFFFFFFFFFULL);
    for (int mb : mbs) {
        if (!W->mine(id++)) continue;
        W->crumb("realTables Hash=" + std::to_string(mb));
        TT tt(4);
        tt.reSize((U64)mb * 65536);
        Position root = TextIO::readFEN(fourMen ? "8/8/8/3k4/8/8/8/KQ5r w - - 0 1" : "8/8/8/3k4/8/8/8/KQ6 w - - 0 1");
        RelaxedShared<S64> inf(-1);
        bool ok = tt.updateTB(root, inf);
        R.count("states");
        if (!ok) { if (mb >= 7) R.violation("updateTB-failed", "Hash " + std::to_string(mb), "{}"); continue; }
        R.count("nontrivial");
        U64 used = tt.usedSize, total = tt.tableSize;
        const U64 tbBytes = 5 * 1024 * 1024;
        if (used * 16 + tbBytes > total * 16) R.violation("used-size-overlaps-tablebase", "Hash " + std::to_string(mb), "{}");
        // checksum of the tablebase region
        auto checksum = [&]() { U64 h = 1469598103934665603ULL; for (U64 i = total * 16 - tbBytes; i < total * 16; i++) { h ^= tt.getByte(i); h *= 1099511628211ULL; } return h; };
        U64 c0 = checksum();
        std::string rep = "{\"kind\":\"input\",\"hashMB\":" + std::to_string(mb) + "}";
        for (int gen = 0; gen < 2; gen++) {
            for (U64 hi = 0; hi < 65536; hi++) for (size_t li = 0; li < lows.size(); li += (gen ? 7 : 1)) {
                U64 key = (hi << 48) | lows[li];
                size_t idx = tt.getIndex(key);
                R.count("transitions");
                if (idx + 3 >= used || (idx & 3)) { R.violation("index-outside-used-size", "Hash " + std::to_string(mb) + " MB used " + std::to_string(used) + " key " + std::to_string(key) + " idx " + std::to_string(idx), rep); hi = 65536; break; }
                if (hi % 64 == 0 || hi > 65000) { Move m(Square((int)(hi % 64)), Square((int)(li % 64)), 0); m.setScore((int)(hi % 2000)); tt.insert(key, m, TType::T_EXACT, 3, (int)(hi % 30), 17); TT::TTEntry e; tt.probe(key, e); }
            }
            tt.nextGeneration();
            // generation refresh stores
            for (U64 hi = 65000; hi < 65536; hi++) for (size_t li = 0; li < lows.size(); li++) { TT::TTEntry e; tt.probe((hi << 48) | lows[li], e); }
        }
        if (checksum() != c0) R.violation("tablebase-bytes-modified-by-hash-traffic", "Hash " + std::to_string(mb) + " MB", rep);
        int s; if (!tt.probeDTM(root, 0, s)) R.violation("tablebase-lost", "Hash " + std::to_string(mb), rep);
        R.outcome("Hash" + std::to_string(mb) + ":shift" + std::to_string(tt.usedSizeShift));
    }
}

int main(int argc, char** argv) {
    Worker w(argc, argv); W = &w;
    br::initTexel();
    std::string part = w.args.get("part", "slots");
    R.part = part;
    bool thorough = w.args.get("tier", "quick") == "thorough";
    if (w.args.has("replay")) { fprintf(stderr, "replay: re-run the part; programs and schedules are deterministic\n"); w.finish(R); return 0; }
    if (part == "slots") slots((int)w.args.getInt("threads", 2), (int)w.args.getInt("ops", 2), (int)w.args.getInt("init", 0), w.args.getInt("maxsched", 0));
    else if (part == "weak") weakProduct((int)w.args.getInt("threads", 2), (int)w.args.getInt("ops", 2), (int)w.args.getInt("init", 0), w.args.getInt("maxcombos", 4000000));
    else if (part == "history") histories((int)w.args.getInt("depth", 5));
    else if (part == "ply") { plyShift(); busyKeepsRecord(); }
    else if (part == "index") indexSweep(thorough);
    else if (part == "real") {
        std::vector<int> mbs; std::istringstream is(w.args.get("mb", "7,8,16,64")); std::string t; while (std::getline(is, t, ',')) mbs.push_back(atoi(t.c_str()));
        realTables(mbs, w.args.getInt("fourmen", 0) != 0);
    }
    else return 2;
    R.count("evaluations", R.counters["states"]);
    w.finish(R);
    return 0;
}

// C12: on-demand endgame tables hold the exact distance to mate.
// (A) exactness by local consistency (Bellman equations + terminal labels) in EVERY placement of the men (and of every
//     sub-multiset reached by captures), both sides to move, through probeDTM(Position) -> every symmetry image;
// (B) the same through the table that lives inside a TranspositionTable (TTStorage, real updateTB);
// (C) fault enumeration: generation aborted at EVERY clock query (time limit) / EVERY iteration boundary (stop), then
//     no probe may succeed until a complete generation has happened.
#include "harness/common.hpp"
#include "harness/bridge.hpp"
#include "oracle/universes.hpp"
#include "tbgen.hpp"
#include "transpositionTable.hpp"
#include "constants.hpp"
#include <dlfcn.h>
#include <time.h>

using namespace vh;
static Result R;
static Worker* W;
static const int M0 = SearchConst::MATE0;

// ---- clock seam (clock_gettime defined by the executable pre-empts libc's)
static long long clockQueries = 0;       // queries made while armed
static bool armed = false;
static long long faultAt = -1;           // query index at which the fault fires
static int faultKind = 0;                // 1 = time jump (time-limit abort), 2 = set maxTimeMillis to 0 (stop request)
static double timeOffset = 0;
static RelaxedShared<S64>* stopVar = nullptr;
extern "C" int clock_gettime(clockid_t id, struct timespec* ts) {
    typedef int (*fn_t)(clockid_t, struct timespec*);
    static fn_t real = (fn_t)dlsym(RTLD_NEXT, "clock_gettime");
    int rc = real(id, ts);
    if (armed && id == CLOCK_MONOTONIC) {
        long long q = clockQueries++;
        if (q == faultAt) {
            if (faultKind == 1) timeOffset += 1000.0;
            else if (faultKind == 2 && stopVar) stopVar->set(0);
        }
        double t = ts->tv_sec + ts->tv_nsec * 1e-9 + timeOffset;
        ts->tv_sec = (time_t)t; ts->tv_nsec = (long)((t - (double)ts->tv_sec) * 1e9);
    }
    return rc;
}

struct Cls { std::vector<int> pcs; };   // non-king pieces (coloured codes)
static std::string clsName(const Cls& c) {
    std::string w = "K", b = "K";
    for (int p : c.pcs) (Piece::isWhite(p) ? w : b) += orc::PCH[orc::typeOf(p)];
    return w + "v" + b;
}
static PieceCount toPC(const Cls& c) {
    PieceCount pc{0,0,0,0,0,0,0,0};
    for (int p : c.pcs) switch (p) {
        case Piece::WQUEEN: pc.nwq++; break; case Piece::WROOK: pc.nwr++; break; case Piece::WBISHOP: pc.nwb++; break; case Piece::WKNIGHT: pc.nwn++; break;
        case Piece::BQUEEN: pc.nbq++; break; case Piece::BROOK: pc.nbr++; break; case Piece::BBISHOP: pc.nbb++; break; case Piece::BKNIGHT: pc.nbn++; break;
    }
    return pc;
}
static std::vector<Cls> classes3() {
    std::vector<Cls> v;
    for (int col = 0; col < 2; col++) for (int t = 2; t <= 5; t++) v.push_back(Cls{{orc::mk(col == 0, t)}});
    return v;
}
static std::vector<Cls> classes4() {
    std::vector<Cls> v;
    for (int col = 0; col < 2; col++) for (int a = 2; a <= 5; a++) for (int b = a; b <= 5; b++) v.push_back(Cls{{orc::mk(col == 0, a), orc::mk(col == 0, b)}});
    for (int a = 2; a <= 5; a++) for (int b = 2; b <= 5; b++) v.push_back(Cls{{orc::mk(true, a), orc::mk(false, b)}});
    return v;
}

static int negShift(int x) { return x > 0 ? -x + 1 : (x < 0 ? -x - 1 : 0); }   // value of a successor seen from the mover

typedef std::function<bool(const Position&, int&)> ProbeFn;

static std::string scoreStr(int s) {
    if (s == 0) return "draw";
    if (s > 0) return "win in " + std::to_string((M0 - s) / 2);
    return "loss in " + std::to_string((M0 + s - 1) / 2);
}

/** Bellman + terminal check of one position. Returns false if the position is not a legal placement. */
static bool checkOne(Position& pos, const ProbeFn& probe, const std::string& cls, bool expectFound) {
    if (MoveGen::canTakeKing(pos)) return false;
    R.count("states");
    int s = 0;
    bool found = probe(pos, s);
    auto rep = [&]() { return "{\"kind\":\"input\",\"class\":\"" + cls + "\",\"fen\":\"" + jsonEsc(TextIO::toFEN(pos)) + "\"}"; };
    if (!expectFound) {
        if (found) R.violation("probe-answers-after-aborted-generation", cls + " " + TextIO::toFEN(pos) + " -> " + scoreStr(s), rep());
        return true;
    }
    if (!found) { R.violation("not-found-in-scope", cls + " " + TextIO::toFEN(pos), rep()); return true; }
    MoveList ml; MoveGen::pseudoLegalMoves(pos, ml); MoveGen::removeIllegal(pos, ml);
    int expect;
    if (ml.size == 0) {
        expect = MoveGen::inCheck(pos) ? -(M0 - 1) : 0;
        R.count("terminal");
    } else {
        R.count("nontrivial");
        expect = -M0 * 2;
        UndoInfo ui;
        for (int i = 0; i < ml.size; i++) {
            pos.makeMove(ml[i], ui);
            int v = 0;
            bool f = probe(pos, v);
            R.count("transitions");
            if (!f) R.violation("successor-not-found", cls + " after " + TextIO::moveToUCIString(ml[i]) + " : " + TextIO::toFEN(pos), rep());
            else expect = std::max(expect, negShift(v));
            pos.unMakeMove(ml[i], ui);
        }
    }
    if (s != expect) {
        R.violation(ml.size == 0 ? "terminal-label" : "bellman", cls + " " + TextIO::toFEN(pos) + " table: " + scoreStr(s) + " minimax of successors: " + scoreStr(expect), rep());
    }
    if (s > 0) R.maxOf("max_mate_in_moves", (M0 - s) / 2);
    R.outcome(cls + ":" + (s == 0 ? "draw" : s > 0 ? "win" : "loss"));
    return true;
}

/** Visit every placement of kings + every sub-multiset of pcs (captures) on distinct squares, both stm. */
static void visitAll(const Cls& c, int wkMode, const ProbeFn& probe, bool expectFound, const uni::Part& part, unsigned long long& counter, bool subsets = true) {
    std::string name = clsName(c);
    int n = (int)c.pcs.size();
    for (int mask = (1 << n) - 1; mask >= 0; mask--) {
        if (!subsets && mask != (1 << n) - 1) break;
        // skip duplicate subsets of identical pieces
        if (n == 2 && c.pcs[0] == c.pcs[1] && mask == 1) continue;
        std::vector<int> pcs;
        for (int i = 0; i < n; i++) if (mask & (1 << i)) pcs.push_back(c.pcs[i]);
        int m = (int)pcs.size();
        int sq[4];
        for (int wk = 0; wk < 64; wk++) {
            if (!uni::wkAllowed(wk, wkMode)) continue;
            for (int bk = 0; bk < 64; bk++) {
                if (bk == wk) continue;
                if (std::max(abs(wk % 8 - bk % 8), abs(wk / 8 - bk / 8)) <= 1) continue;
                unsigned long long id = counter++;
                if (!part.mine(id)) continue;
                if (W->dl.hit()) { R.exhaustive = false; return; }
                Position base;
                base.setPiece(Square(wk), Piece::WKING); base.setPiece(Square(bk), Piece::BKING);
                std::function<void(int, Position&)> rec = [&](int i, Position& p) {
                    if (i == m) {
                        for (int stm = 0; stm < 2; stm++) { p.setWhiteMove(stm == 0); checkOne(p, probe, name, expectFound); }
                        return;
                    }
                    for (int s = 0; s < 64; s++) {
                        if (p.getPiece(Square(s)) != Piece::EMPTY) continue;
                        if (i > 0 && pcs[i] == pcs[i-1] && s < sq[i-1]) continue;
                        sq[i] = s;
                        p.setPiece(Square(s), pcs[i]);
                        rec(i + 1, p);
                        p.setPiece(Square(s), Piece::EMPTY);
                    }
                };
                rec(0, base);
            }
        }
    }
}

static Position anyPositionOf(const Cls& c) {
    // a fixed legal position of the class (kings far apart, pieces on the 4th rank)
    Position p;
    p.setPiece(Square(0), Piece::WKING); p.setPiece(Square(63), Piece::BKING);
    int s = 26;
    for (int pc : c.pcs) p.setPiece(Square(s++), pc);
    p.setWhiteMove(true);
    return p;
}

static void scopeChecks(const Cls& c, const ProbeFn& probe) {
    // positions outside the table's scope must be "not found"
    std::vector<std::string> outside = {
        "8/8/8/8/8/8/4P3/K6k w - - 0 1", "8/8/8/4p3/8/8/8/K6k w - - 0 1",          // pawns
        "8/8/8/8/8/2QQQ3/8/K6k w - - 0 1", "8/8/8/8/8/2nnn3/8/K6k w - - 0 1",      // more men than the table
        "8/8/8/8/8/8/8/R3K2k w Q - 0 1", "r3k3/8/8/8/8/8/8/7K b q - 0 1",          // castling rights
    };
    // material of other classes
    for (auto& o : classes3()) if (clsName(o) != clsName(c)) { bool sub = false; for (int p : c.pcs) if (o.pcs[0] == p) sub = true; if (!sub) outside.push_back(TextIO::toFEN(anyPositionOf(o))); }
    for (auto& f : outside) {
        Position p = TextIO::readFEN(f);
        // skip castling cases that the class cannot contain at all is fine: still must be "not found"
        int s; R.count("scope_probes");
        if (probe(p, s)) R.violation("out-of-scope-position-answered", clsName(c) + " " + f + " -> " + scoreStr(s), "{}");
    }
}

// ---- (A) vector storage
static void exact(const std::vector<Cls>& cls, int wkMode, long from, long count) {
    uni::Part P{W->idx, W->n};
    unsigned long long counter = 0;
    for (long i = from; i < from + count; i++) {
        const Cls& c = cls[(size_t)(i % (long)cls.size())];
        W->crumb("exact " + clsName(c));
        VectorStorage vs;
        TBGenerator<VectorStorage> gen(vs, toPC(c));
        RelaxedShared<S64> maxT(-1);
        if (!gen.generate(maxT, false)) { R.violation("generate-failed", clsName(c), "{}"); continue; }
        ProbeFn probe = [&](const Position& p, int& s) { return gen.probeDTM(p, 0, s); };
        visitAll(c, wkMode, probe, true, P, counter);
        if (W->idx == 0) scopeChecks(c, probe);
        // ply shift of probeDTM
        if (W->idx == 0) {
            Position p = anyPositionOf(c); int s0, s7;
            if (gen.probeDTM(p, 0, s0) && gen.probeDTM(p, 7, s7)) { int e = s0 > 0 ? s0 - 7 : s0 < 0 ? s0 + 7 : 0; if (s7 != e) R.violation("probeDTM-ply-shift", clsName(c), "{}"); }
        }
        if (!R.exhaustive) return;
        if (R.samples.size() < 2) R.sampleStr(clsName(c) + " e.g. " + TextIO::toFEN(anyPositionOf(c)));
    }
}

// ---- (B) table inside the transposition table
static void inTT(const std::vector<Cls>& cls, int wkMode, long from, long count) {
    uni::Part P{W->idx, W->n};
    unsigned long long counter = 0;
    for (long i = from; i < from + count; i++) {
        const Cls& c = cls[(size_t)(i % (long)cls.size())];
        W->crumb("tt " + clsName(c));
        TranspositionTable tt(1024 * 1024);   // 16 MB
        // pre-fill with hash entries so that stale bytes are not all zero
        for (U64 k = 1; k < 200000; k++) { Move m(Square((int)(k % 64)), Square((int)((k / 64) % 64)), 0); m.setScore((int)(k % 1000)); tt.insert(k * 0x9E3779B97F4A7C15ULL, m, TType::T_EXACT, 0, (int)(k % 20), (int)(k % 300)); }
        RelaxedShared<S64> maxT(-1);
        Position root = anyPositionOf(c);
        if (!tt.updateTB(root, maxT)) { R.violation("updateTB-failed", clsName(c), "{}"); continue; }
        ProbeFn probe = [&](const Position& p, int& s) { return tt.probeDTM(p, 0, s); };
        visitAll(c, wkMode, probe, true, P, counter);
        if (W->idx == 0) scopeChecks(c, probe);
        if (!R.exhaustive) return;
    }
}

// ---- (C) abort enumeration (one forked child per abort point: updateTB keeps a function-local static)
struct ChildOut { long long states, transitions, nViol, queries; int ret1, ret2; char detail[600]; };

static void aborts(const std::vector<Cls>& cls, long from, long count, bool alsoStop) {
    for (long ci = from; ci < from + count; ci++) {
        const Cls& c = cls[(size_t)(ci % (long)cls.size())];
        // number of clock queries of a complete generation (measured in a child as well, fresh static state)
        ChildOut* out = (ChildOut*)mmap(nullptr, sizeof(ChildOut), PROT_READ | PROT_WRITE, MAP_SHARED | MAP_ANONYMOUS, -1, 0);
        auto runChild = [&](int kind, long long at) -> bool {
            memset(out, 0, sizeof(ChildOut));
            pid_t pid = fork();
            if (pid == 0) {
                Result saved = R; R = Result();
                TranspositionTable tt(1024 * 1024);
                for (U64 k = 1; k < 100000; k++) { Move m(Square((int)(k % 64)), Square((int)((k / 64) % 64)), 0); tt.insert(k * 0x9E3779B97F4A7C15ULL, m, TType::T_EXACT, 0, (int)(k % 20), (int)(k % 300)); }
                RelaxedShared<S64> maxT(kind == 2 ? -1 : 10000);
                if (kind == 2) maxT.set(100000000);   // effectively no time limit, but a value that the seam can turn into 0 (= stop)
                stopVar = &maxT; faultKind = kind; faultAt = at; clockQueries = 0; timeOffset = 0;
                Position root = anyPositionOf(c);
                armed = true;
                bool r1 = tt.updateTB(root, maxT);
                armed = false;
                out->queries = clockQueries; out->ret1 = r1;
                uni::Part all{0, 1}; unsigned long long ctr = 0;
                ProbeFn probe = [&](const Position& p, int& s) { return tt.probeDTM(p, 0, s); };
                if (kind != 0) {
                    if (r1) {
                        // the generator reports success although a stop / time-out was injected: whatever it installed must be the complete, exact table
                        snprintf(out->detail, sizeof out->detail, "fault did not abort generation");
                        ctr = 0; visitAll(c, 2, probe, true, all, ctr, false);
                    }
                    else {
                        // ordinary hash traffic, then: no probe may succeed
                        for (U64 k = 1; k < 50000; k++) { Move m(Square((int)(k % 64)), Square((int)((k / 64) % 64)), 0); tt.insert(k * 0xD1342543DE82EF95ULL, m, TType::T_GE, 1, (int)(k % 20), (int)(k % 300)); }
                        visitAll(c, 0, probe, false, all, ctr, false);
                        if (tt.usedSize != tt.tableSize) R.violation("used-size-not-restored-after-abort", clsName(c), "{}");
                        // a second, complete generation makes every probe exact again
                        RelaxedShared<S64> inf(-1);
                        bool r2 = tt.updateTB(root, inf); out->ret2 = r2;
                        if (!r2) R.violation("second-updateTB-failed", clsName(c), "{}");
                        else { ctr = 0; visitAll(c, 2, probe, true, all, ctr, false); }
                    }
                }
                out->states = R.counters["states"]; out->transitions = R.counters["transitions"]; out->nViol = R.nViolations;
                if (!R.violations.empty()) snprintf(out->detail, sizeof out->detail, "%s | %s", R.violations[0].sig.c_str(), R.violations[0].detail.c_str());
                _exit(0);
            }
            int st = 0; waitpid(pid, &st, 0);
            return WIFEXITED(st) && WEXITSTATUS(st) == 0;
        };
        if (!runChild(0, -1)) { R.violation("abort-harness-child-crashed", clsName(c), "{}"); continue; }
        long long nq = out->queries;
        R.maxOf("clock_queries_per_generation", nq);
        unsigned long long id = 0;
        for (int kind = 1; kind <= (alsoStop ? 2 : 1); kind++) for (long long at = 0; at < nq; at++) {
            if (!W->mine(id++)) continue;
            W->crumb("abort " + clsName(c) + " kind=" + std::to_string(kind) + " at=" + std::to_string(at));
            bool ok = runChild(kind, at);
            R.count("evaluations");
            std::string rep = "{\"kind\":\"fault\",\"class\":\"" + clsName(c) + "\",\"fault\":" + std::to_string(kind) + ",\"at\":" + std::to_string(at) + "}";
            if (!ok) { R.violation("crash-after-aborted-generation", clsName(c) + " kind " + std::to_string(kind) + " at query " + std::to_string(at), rep); continue; }
            R.count("states", out->states); R.count("transitions", out->transitions);
            if (out->ret1) {
                // the fault fired at a query that does not abort (e.g. a stop flag set after the last iteration test): generation reports success,
                // so the table it installed has been checked for exactness like a complete one
                R.count("faults_without_abort");
                if (out->nViol) R.violation("inexact-table-published-after-fault:" + std::string(out->detail).substr(0, std::string(out->detail).find(" | ")), clsName(c) + " kind " + std::to_string(kind) + " at query " + std::to_string(at) + " : " + out->detail, rep);
                continue;
            }
            R.count("aborted_generations"); R.count("nontrivial");
            R.outcome(std::string(kind == 1 ? "time-limit" : "stop") + (out->ret2 ? ":recovered" : ":not-recovered"));
            if (out->nViol) R.violation(std::string(out->detail).substr(0, std::string(out->detail).find(" | ")), clsName(c) + " kind " + std::to_string(kind) + " at query " + std::to_string(at) + " : " + out->detail, rep);
        }
        munmap(out, sizeof(ChildOut));
    }
}

int main(int argc, char** argv) {
    Worker w(argc, argv); W = &w;
    br::initTexel();
    std::string part = w.args.get("part", "exact3");
    R.part = part;
    long from = w.args.getInt("from", 0), count = w.args.getInt("count", 1);
    int wk = (int)w.args.getInt("wk", 0);
    if (w.args.has("replay")) {
        std::string txt = readFile(w.args.get("replay"));
        std::string cn = jsonGetStr(txt, "class"), fen = jsonGetStr(txt, "fen");
        std::vector<Cls> all = classes3(); for (auto& c : classes4()) all.push_back(c);
        for (auto& c : all) if (clsName(c) == cn) {
            if (!fen.empty()) {
                VectorStorage vs; TBGenerator<VectorStorage> gen(vs, toPC(c)); RelaxedShared<S64> maxT(-1); gen.generate(maxT, false);
                ProbeFn probe = [&](const Position& p, int& s) { return gen.probeDTM(p, 0, s); };
                Position p = TextIO::readFEN(fen); checkOne(p, probe, cn, true);
            } else {
                std::vector<Cls> one = {c}; w.n = 1; w.idx = 0;
                long at = jsonGetInt(txt, "at", 0); int kind = (int)jsonGetInt(txt, "fault", 1);
                (void)at; (void)kind; aborts(one, 0, 1, true);
            }
        }
        w.finish(R); return 0;
    }
    auto pick4 = [&]() {
        std::vector<Cls> all = classes4(), sel;
        std::string names = w.args.get("names", "");
        if (names.empty()) { for (long i = from; i < from + count; i++) sel.push_back(all[(size_t)(i % (long)all.size())]); return sel; }
        std::istringstream is(names); std::string n;
        while (std::getline(is, n, ',')) for (auto& c : all) if (clsName(c) == n) sel.push_back(c);
        for (long i = from; i < from + count; i++) { const Cls& c = all[(size_t)(i % (long)all.size())]; bool dup = false; for (auto& x : sel) if (clsName(x) == clsName(c)) dup = true; if (!dup) sel.push_back(c); }
        return sel;
    };
    if (part == "exact3") exact(classes3(), wk, 0, 8);
    else if (part == "exact4") { auto sel = pick4(); exact(sel, wk, 0, (long)sel.size()); }
    else if (part == "tt3") inTT(classes3(), wk, from, count);
    else if (part == "tt4") { auto sel = pick4(); inTT(sel, wk, 0, (long)sel.size()); }
    else if (part == "abort3") aborts(classes3(), from, count, true);
    else if (part == "abort4") aborts(classes4(), from, count, true);
    else return 2;
    R.count("evaluations", R.counters["states"]);
    w.finish(R);
    return 0;
}

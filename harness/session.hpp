// In-process UCI session runner (DESIGN.md 3.8): the real UCIProtocol + EngineControl + EngineMainThread stack is driven
// through scripted input / captured output streams inside a child forked from a warmed, single-threaded parent.
// Script lines are UCI commands or directives:  @await bestmove | @await readyok | @sleep <ms> | @usleep <us> | @eof
#pragma once
#include "harness/common.hpp"
#include "harness/bridge.hpp"
#include "uciprotocol.hpp"
#include "evaluate.hpp"
#include "harness/evalsanity.hpp"
#include <thread>
#include <mutex>
#include <condition_variable>
#include <deque>
#include <streambuf>
#include <csignal>
#include <poll.h>

namespace ses {

/** Optional time stamp source (virtual clock): when set, every transcript line is prefixed by "@<microseconds> ". */
static long long (*lineStamp)() = nullptr;
inline std::string stamped(const std::string& l) { if (!lineStamp) return l; return "@" + std::to_string(lineStamp()) + " " + l; }

/** Blocking input stream buffer fed by the script driver. */
class InBuf : public std::streambuf {
public:
    void push(const std::string& s) { std::lock_guard<std::mutex> L(m); for (char c : s) q.push_back(c); cv.notify_all(); }
    void close() { std::lock_guard<std::mutex> L(m); closed = true; cv.notify_all(); }
protected:
    // one lock per refill: everything queued so far becomes the get area (a char-by-char refill would look like a polling loop to the scheduler)
    int_type underflow() override {
        std::unique_lock<std::mutex> L(m);
        while (q.empty() && !closed) cv.wait(L);
        if (q.empty()) return traits_type::eof();
        buf.assign(q.begin(), q.end()); q.clear();
        setg(&buf[0], &buf[0], &buf[0] + buf.size());
        return traits_type::to_int_type(buf[0]);
    }
private:
    std::mutex m; std::condition_variable cv; std::deque<char> q; bool closed = false; std::string buf;
};

/** Output stream buffer: splits into lines, records them and forwards them to a file descriptor. */
class OutBuf : public std::streambuf {
public:
    int fd = -1;
    std::mutex m; std::condition_variable cv;
    std::vector<std::string> lines;
    int nBest = 0, nReady = 0;
protected:
    // Lines are assembled per writing thread: the protocol thread (readyok, id ...) and the engine thread (info, bestmove) share
    // one ostream, exactly as they share std::cout in the real binary; assembling per thread keeps the harness from inventing
    // garbled lines that a line-buffered terminal would not show either.
    int_type overflow(int_type c) override {
        if (c == traits_type::eof()) return c;
        char ch = (char)c;
        xsputn(&ch, 1);
        return c;
    }
    // Output counts as delivered when it is FLUSHED (std::endl, std::flush), as with a pipe to a GUI: complete lines written without a
    // flush stay in the stream's buffer until the writing thread flushes, 4 KB have accumulated, or the session ends.
    std::streamsize xsputn(const char* s, std::streamsize n) override {
        std::lock_guard<std::mutex> L(m);
        std::thread::id me = std::this_thread::get_id();
        std::string& cur = partial[me];
        for (std::streamsize i = 0; i < n; i++) {
            if (s[i] == '\n') { held[me].push_back(cur); heldBytes[me] += cur.size() + 1; cur.clear(); }
            else cur += s[i];
        }
        if (heldBytes[me] >= 4096) deliver(me);
        return n;
    }
    int sync() override { std::lock_guard<std::mutex> L(m); deliver(std::this_thread::get_id()); return 0; }
    void deliver(std::thread::id who) {
        auto it = held.find(who); if (it == held.end() || it->second.empty()) return;
        for (const std::string& ln : it->second) {
            lines.push_back(ln);
            if (ln.rfind("bestmove", 0) == 0) nBest++;
            if (ln == "readyok") nReady++;
            if (fd >= 0) { std::string o = stamped(ln) + "\n"; if (::write(fd, o.data(), o.size())) {} }
        }
        it->second.clear(); heldBytes[who] = 0;
        cv.notify_all();
    }
public:
    /** End of the session: whatever is still buffered reaches the reader now (as at process exit). */
    void deliverAll() { std::lock_guard<std::mutex> L(m); std::vector<std::thread::id> ids; for (auto& kv : held) ids.push_back(kv.first); for (auto& id : ids) deliver(id); }
private:
    std::map<std::thread::id, std::string> partial;
    std::map<std::thread::id, std::vector<std::string>> held;
    std::map<std::thread::id, size_t> heldBytes;
};

/** Runs one script in the current process (to be called in a forked child). Returns 0 on orderly end. */
/** Thread running EngineMainThread::mainLoop (= the main search thread) of the session in this process. */
inline pthread_t engineTid;
inline bool engineTidSet = false;

/** The protocol object of the session running in this process (for the end-state probe). */
inline UCIProtocol* curUci = nullptr;

/** C10 "every helper thread idle and acknowledged": at a quiescent point (the engine thread is about to start a search, or the session
 *  has ended and the protocol and engine threads are joined) no helper holds a search job, every communicator of the worker tree has all
 *  its stop acknowledgements, and no search command (start / stop / result / ack) is left in any mailbox. Returns "" if so. */
inline std::string helperEndState(UCIProtocol& uci) {
    std::string bad;
    auto queueBad = [&](Communicator* c, const std::string& who) {
        int n = 0;
        for (auto& cmd : c->cmdQueue) if (cmd->type == Communicator::START_SEARCH || cmd->type == Communicator::STOP_SEARCH || cmd->type == Communicator::REPORT_RESULT || cmd->type == Communicator::STOP_ACK) n++;
        if (n) bad += who + ":search-commands-left-in-mailbox(" + std::to_string(n) + ") ";
        if (!c->hasStopAck()) bad += who + ":stop-not-acknowledged() ";
    };
    if (uci.engineThread.comm) queueBad(uci.engineThread.comm.get(), "root");
    std::function<void(const std::vector<std::shared_ptr<WorkerThread>>&)> walk = [&](const std::vector<std::shared_ptr<WorkerThread>>& ws) {
        for (auto& w : ws) {
            if (!w) continue;
            std::string who = "helper" + std::to_string(w->threadNo);
            if (w->jobId != -1) bad += who + ":still-holds-job(" + std::to_string(w->jobId) + ") ";
            if (w->comm) queueBad(w->comm.get(), who);
            walk(w->children);
        }
    };
    walk(uci.engineThread.children);
    return bad;
}
inline int endStateFd = -1;
inline long endStateProbes = 0;
/** Called from the wrapped Communicator::sendInitSearch on the engine thread (harnesses that wrap it) and at the end of every session. */
inline void probeEndState(const char* where) {
#if !defined(__SANITIZE_THREAD__)
    if (!curUci) return;
    endStateProbes++;
    std::string bad = helperEndState(*curUci);
    if (!bad.empty() && endStateFd >= 0) { std::string o = stamped(std::string("> @endstate ") + where + " " + bad) + "\n"; if (::write(endStateFd, o.data(), o.size())) {} }
#else
    (void)where;
#endif
}

/** Free-running sessions only: an "@await" gives up after this many seconds of wall-clock time, writes "> @await-timeout <what>" and the
 *  script goes on (so that a search that lost its limit is stopped by the following quit instead of holding the child until the alarm).
 *  0 = wait for ever (sessions under the controlled scheduler, where waiting is virtual). */
inline int awaitLimitS = 0;

inline int runScriptInChild(const std::vector<std::string>& script, int outFd, int timeoutS) {
    alarm((unsigned)timeoutS);
    InBuf ib; OutBuf ob; ob.fd = outFd;
    std::istream is(&ib); std::ostream os(&ob);
    int nGo = 0, nIsReady = 0;
    {
        UCIProtocol uci(is, os);
        curUci = &uci; endStateFd = outFd;
        std::thread proto([&]() { uci.mainLoop(false); });
        std::thread eng([&]() { engineTid = pthread_self(); engineTidSet = true; uci.engineThread.mainLoop(); });
        auto marker = [&](const std::string& s) { if (outFd >= 0) { std::string o = stamped(s) + "\n"; if (::write(outFd, o.data(), o.size())) {} } };
        for (const std::string& line : script) {
            if (line.rfind("@await ", 0) == 0) {
                bool best = line.rfind("@await bestmove", 0) == 0;
                bool arrived = true;
                {
                    std::unique_lock<std::mutex> L(ob.m);
                    auto done = [&]() { return best ? ob.nBest >= nGo : ob.nReady >= nIsReady; };
                    if (awaitLimitS <= 0) { while (!done()) ob.cv.wait(L); }
                    else {
                        auto end = std::chrono::steady_clock::now() + std::chrono::seconds(awaitLimitS);
                        while (!done()) if (ob.cv.wait_until(L, end) == std::cv_status::timeout) { arrived = done(); break; }
                    }
                }
                if (!arrived) marker(std::string("> @await-timeout ") + (best ? "bestmove" : "readyok"));
            } else if (line.rfind("@usleep", 0) == 0) {
                std::this_thread::sleep_for(std::chrono::microseconds(atoll(line.c_str() + 7)));
            } else if (line.rfind("@sleep", 0) == 0) {
                std::this_thread::sleep_for(std::chrono::milliseconds(atoi(line.c_str() + 6)));
            } else if (line == "@eof") {
                marker("> @eof");
                break;
            } else {
                std::istringstream ts(line); std::string w0; ts >> w0;
                if (w0 == "go") nGo++;
                if (w0 == "isready") nIsReady++;
                marker("> " + line);          // echo of the command into the transcript (ordering relative to output is approximate)
                ib.push(line + "\n");
                if (w0 == "quit") break;
            }
        }
        marker("> @close");          // end of input: releases a pending infinite / ponder search like "quit" does
        ib.close();
        proto.join();
        eng.join();
        ob.deliverAll();
        probeEndState("session-end");
        if (outFd >= 0) { std::string o = stamped("> @endstate-probes " + std::to_string(endStateProbes)) + "\n"; if (::write(outFd, o.data(), o.size())) {} }
        curUci = nullptr;
    }
    alarm(0);
    return 0;
}

struct Transcript {
    std::vector<std::string> lines;   // "> cmd" for commands, everything else engine output
    int exitStatus = 0; bool signalled = false; int sig = 0; bool timedOut = false;
    bool awaitTimedOut = false;       // an "@await" of a free-running session gave up (see awaitLimitS)
    std::string stderrTail;
};

inline Transcript runSessionOnce(const std::vector<std::string>& script, int timeoutS);
inline long rerunsAfterTimeout = 0;
/** Fork a child, run the script there, collect the transcript. The caller must be single-threaded.
 *  A session that hits its wall-clock limit is re-run alone with a ten times longer limit before the limit is believed (slow machine). */
inline Transcript runSession(const std::vector<std::string>& script, int timeoutS = 20) {
    Transcript t = runSessionOnce(script, timeoutS);
    if (t.timedOut || t.awaitTimedOut) { rerunsAfterTimeout++; t = runSessionOnce(script, timeoutS * 10); }
    return t;
}
inline Transcript runSessionOnce(const std::vector<std::string>& script, int timeoutS) {
    Transcript t;
    int pfd[2], efd[2];
    if (pipe(pfd) != 0 || pipe(efd) != 0) { t.exitStatus = -1; return t; }
    fflush(nullptr);
    pid_t pid = fork();
    if (pid == 0) {
        close(pfd[0]); close(efd[0]);
        dup2(efd[1], 2);
        // the engine prints to std::cout only through the stream we pass; keep stdout quiet
        int devnull = open("/dev/null", O_WRONLY); if (devnull >= 0) dup2(devnull, 1);
        awaitLimitS = std::max(10, timeoutS / 3);
        int rc = runScriptInChild(script, pfd[1], timeoutS);
        _exit(rc);
    }
    close(pfd[1]); close(efd[1]);
    std::string buf, ebuf;
    struct pollfd fds[2] = {{pfd[0], POLLIN, 0}, {efd[0], POLLIN, 0}};
    int open_ = 2; char tmp[65536];
    while (open_ > 0) {
        int pr = poll(fds, 2, 1000);
        if (pr < 0) break;
        for (int i = 0; i < 2; i++) {
            if (fds[i].fd < 0) continue;
            if (fds[i].revents & (POLLIN | POLLHUP | POLLERR)) {
                ssize_t n = read(fds[i].fd, tmp, sizeof tmp);
                if (n > 0) { (i == 0 ? buf : ebuf).append(tmp, (size_t)n); if (ebuf.size() > 200000) ebuf.erase(0, ebuf.size() - 100000); }
                else { close(fds[i].fd); fds[i].fd = -1; open_--; }
            }
        }
    }
    int st = 0; waitpid(pid, &st, 0);
    if (WIFEXITED(st)) t.exitStatus = WEXITSTATUS(st);
    else if (WIFSIGNALED(st)) { t.signalled = true; t.sig = WTERMSIG(st); if (t.sig == SIGALRM) t.timedOut = true; }
    std::istringstream is(buf); std::string l;
    while (std::getline(is, l)) { t.lines.push_back(l); if (l.find("> @await-timeout") != std::string::npos) t.awaitTimedOut = true; }
    t.stderrTail = ebuf.size() > 3000 ? ebuf.substr(ebuf.size() - 3000) : ebuf;
    return t;
}

/** Warm the parent: static initialisers that must not run concurrently in children. */
inline void warm() {
    br::initTexel();
    auto et = Evaluate::getEvalHashTables();
    (void)et;
    evs::check();
}

// ------------------------------------------------------------------------------------------------ transcript analysis
struct InfoLine { int depth = 0; bool hasScore = false, isMate = false, upper = false, lower = false; int score = 0; int multipv = 0; long long nodes = -1; std::vector<std::string> pv; bool wellFormed = true; std::string raw; };
struct GoResult {
    std::string goCmd; orc::Board root; bool rootKnown = false;
    std::vector<std::string> searchMoves;
    std::vector<InfoLine> infos;
    int nBestmove = 0; std::string best, ponder;
    bool isPonderOrInfinite = false;
    bool released = false;        // a stop / ponderhit / quit / next go / eof was seen before its bestmove
    bool bestBeforeRelease = false;
};

inline bool parseInfo(const std::string& line, InfoLine& il) {
    il.raw = line;
    std::istringstream is(line); std::string w; is >> w;
    if (w != "info") return false;
    while (is >> w) {
        if (w == "depth") { if (!(is >> il.depth)) il.wellFormed = false; }
        else if (w == "score") { std::string k; is >> k; if (k != "cp" && k != "mate") il.wellFormed = false; il.isMate = k == "mate"; if (!(is >> il.score)) il.wellFormed = false; il.hasScore = true; }
        else if (w == "upperbound") il.upper = true;
        else if (w == "lowerbound") il.lower = true;
        else if (w == "multipv") { if (!(is >> il.multipv)) il.wellFormed = false; }
        else if (w == "nodes") { if (!(is >> il.nodes)) il.wellFormed = false; }
        else if (w == "time" || w == "nps" || w == "tbhits" || w == "hashfull" || w == "currmovenumber") { long long x; if (!(is >> x)) il.wellFormed = false; }
        else if (w == "currmove") { std::string m; is >> m; }
        else if (w == "string") { std::string rest; std::getline(is, rest); break; }
        else if (w == "pv") { std::string m; while (is >> m) il.pv.push_back(m); }
        else il.wellFormed = false;
    }
    return true;
}

inline bool findMove(const orc::Board& b, const std::string& u, orc::Mv& out) {
    for (auto& m : orc::legalMoves(b)) if (orc::uci(m) == u) { out = m; return true; }
    return false;
}

/** Tracks the position given by "position" commands with the independent oracle. */
struct PosTracker {
    orc::Board cur = orc::startPos(); bool known = true;
    void onCommand(const std::string& cmd) {
        std::istringstream is(cmd); std::string w; is >> w;
        if (w != "position") return;
        std::string t; if (!(is >> t)) return;
        orc::Board b; bool ok = false;
        std::vector<std::string> rest; std::string x; while (is >> x) rest.push_back(x);
        size_t i = 0;
        if (t == "startpos") { b = orc::startPos(); ok = true; }
        else if (t == "fen") {
            std::string fen; while (i < rest.size() && rest[i] != "moves") { if (!fen.empty()) fen += ' '; fen += rest[i++]; }
            try { Position p = TextIO::readFEN(fen); b = br::fromTexel(p); ok = true; } catch (const ChessParseError&) { ok = false; }
        }
        if (!ok) return;   // engine keeps its previous position on a parse error
        if (i < rest.size() && rest[i] == "moves") {
            for (i++; i < rest.size(); i++) { orc::Mv m; if (!findMove(b, rest[i], m)) { known = false; cur = b; return; } b = orc::apply(b, m); }
        }
        cur = b; known = true;
    }
};

} // namespace ses

namespace ses {

struct Finding { std::string sig, detail; };

struct Analysis {
    std::vector<GoResult> gos;
    std::vector<Finding> findings;
    int nIsReady = 0, nReadyOk = 0;
    std::set<std::string> controllerStates;
    long endStateProbes = 0;
};

/** UCI contract (C05) + result well-formedness (C03) on one transcript. `strictCount`: the session ended with quit/eof after all awaits. */
inline Analysis analyse(const Transcript& t, bool checkResults = true) {
    Analysis a;
    PosTracker pt;
    auto add = [&](const std::string& sig, const std::string& d) { a.findings.push_back(Finding{sig, d}); };
    auto outstanding = [&]() -> GoResult* { for (auto& g : a.gos) if (g.nBestmove == 0) return &g; return nullptr; };
    bool engineExists = false;
    for (const std::string& line : t.lines) {
        if (line.rfind("> ", 0) == 0) {
            std::string cmd = line.substr(2);
            std::istringstream is(cmd); std::string w; is >> w;
            if (w == "@endstate-probes") { std::string n; is >> n; a.endStateProbes += atol(n.c_str()); continue; }
            if (w == "@endstate") { std::string where, what; is >> where >> what; { size_t c = what.find(':'), q = what.find('('); add("helper-not-idle:" + what.substr(c + 1, q == std::string::npos ? q : q - c - 1) + "@" + where, cmd.substr(10)); } continue; }
            if (w == "@await-timeout") { add("awaited-answer-did-not-arrive", "no " + cmd.substr(cmd.find(' ') + 1) + " although the command before it must be answered without further input"); continue; }
            pt.onCommand(cmd);
            if (w == "isready") { a.nIsReady++; engineExists = true; }
            if (w == "setoption" || w == "go") engineExists = true;
            if (w == "stop" || w == "ponderhit" || w == "quit" || w == "go" || w == "@eof" || w == "@close") for (auto& g : a.gos) if (g.nBestmove == 0) g.released = true;
            if (w == "go") {
                GoResult g; g.goCmd = cmd; g.root = pt.cur; g.rootKnown = pt.known;
                std::string x; bool sm = false;
                while (is >> x) {
                    if (x == "searchmoves") { sm = true; continue; }
                    if (x == "ponder" || x == "infinite") { g.isPonderOrInfinite = true; sm = false; continue; }
                    if (sm) { if (x.size() >= 4 && x.size() <= 5 && x[0] >= 'a' && x[0] <= 'h' && isdigit((unsigned char)x[1])) g.searchMoves.push_back(x); else sm = false; }
                }
                // a go without any limit is an infinite search as well
                if (cmd.find("depth") == std::string::npos && cmd.find("nodes") == std::string::npos && cmd.find("movetime") == std::string::npos &&
                    cmd.find("wtime") == std::string::npos && cmd.find("btime") == std::string::npos && cmd.find("mate") == std::string::npos) g.isPonderOrInfinite = true;
                a.gos.push_back(g);
            }
            a.controllerStates.insert(std::string(engineExists ? "E" : "-") + (outstanding() ? "S" : "-"));
            continue;
        }
        if (line == "readyok") { a.nReadyOk++; if (a.nReadyOk > a.nIsReady) add("readyok-without-isready", line); continue; }
        if (line.rfind("bestmove", 0) == 0) {
            GoResult* g = outstanding();
            if (!g) { add("bestmove-without-go", line); continue; }
            if (g->isPonderOrInfinite && !g->released) g->bestBeforeRelease = true;
            g->nBestmove++;
            std::istringstream is(line); std::string w; is >> w >> g->best;
            if (is >> w) { if (w != "ponder" || !(is >> g->ponder)) add("malformed-bestmove", line); }
            continue;
        }
        if (line.rfind("info", 0) == 0) {
            InfoLine il;
            parseInfo(line, il);
            if (!il.wellFormed) add("malformed-info", line);
            GoResult* g = outstanding();
            if (!g) { add("info-after-bestmove", line); continue; }
            g->infos.push_back(il);
            continue;
        }
        if (line.rfind("id ", 0) == 0 || line.rfind("option ", 0) == 0 || line == "uciok") continue;
        add("malformed-output-line", line);
    }
    for (auto& g : a.gos) {
        if (g.nBestmove != 1) add(g.nBestmove == 0 ? "go-without-bestmove" : "multiple-bestmoves", g.goCmd);
        if (g.bestBeforeRelease) add("bestmove-before-release", g.goCmd + " -> " + g.best);
    }
    if (a.nReadyOk != a.nIsReady) add("readyok-count", std::to_string(a.nIsReady) + " isready, " + std::to_string(a.nReadyOk) + " readyok");
    if (t.timedOut) add("hang", "session did not end within the time limit");
    else if (t.signalled) add("crash:signal " + std::to_string(t.sig), t.stderrTail);
    else if (t.exitStatus != 0) add("exit-status-" + std::to_string(t.exitStatus), t.stderrTail);
    if (t.stderrTail.find("Sanitizer") != std::string::npos || t.stderrTail.find("runtime error") != std::string::npos) add("sanitizer-report", t.stderrTail);

    if (!checkResults) return a;
    for (auto& g : a.gos) {
        if (!g.rootKnown || g.nBestmove != 1) continue;
        const orc::Board& b = g.root;
        std::vector<orc::Mv> lm = orc::legalMoves(b);
        std::string fen = orc::toFEN(b);
        std::set<std::string> legal; for (auto& m : lm) legal.insert(orc::uci(m));
        std::set<std::string> allowed = legal;
        if (!g.searchMoves.empty()) { std::set<std::string> f; for (auto& s : g.searchMoves) if (legal.count(s)) f.insert(s); allowed = f; }
        std::string ctx = g.goCmd + " @ " + fen;
        if (g.best == "0000") {
            if (!allowed.empty()) add("bestmove-0000-with-legal-moves", ctx);
        } else {
            if (!legal.count(g.best)) add("bestmove-illegal", ctx + " -> " + g.best);
            else if (!allowed.count(g.best)) add("bestmove-not-in-searchmoves", ctx + " -> " + g.best);
            else if (!g.ponder.empty()) {
                orc::Mv m; findMove(b, g.best, m); orc::Board nb = orc::apply(b, m); orc::Mv pm;
                if (!findMove(nb, g.ponder, pm)) add("ponder-move-illegal", ctx + " -> " + g.best + " ponder " + g.ponder);
            }
        }
        // one multi-PV report = a run of consecutive pv lines with multipv 1, 2, ..., k
        std::vector<std::pair<int, std::string>> group;
        auto closeGroup = [&]() {
            std::set<std::string> seen; int expectIdx = 1;
            for (auto& kv : group) {
                if (kv.first != expectIdx++) add("multipv-indices-not-contiguous", ctx);
                if (!seen.insert(kv.second).second) add("multipv-duplicate-first-move", ctx + " move " + kv.second);
            }
            group.clear();
        };
        for (auto& il : g.infos) {
            if (il.hasScore) {
                if (il.upper && il.lower) add("both-bounds", ctx + " : " + il.raw);
                if (il.isMate) { if (il.score == 0 || std::abs(il.score) > 8000) add("mate-distance-out-of-range", ctx + " : " + il.raw); }
                else if (std::abs(il.score) >= 16000) add("score-out-of-range", ctx + " : " + il.raw);
            }
            if (!il.pv.empty()) {
                orc::Board x = b; bool ok = true;
                for (auto& mv : il.pv) { orc::Mv m; if (!findMove(x, mv, m)) { ok = false; break; } x = orc::apply(x, m); }
                if (!ok) add("pv-not-playable", ctx + " : " + il.raw);
                if (!g.searchMoves.empty() && !allowed.count(il.pv[0]) && !allowed.empty()) add("pv-outside-searchmoves", ctx + " : " + il.raw);
                if (il.multipv > 0) { if (il.multipv == 1) closeGroup(); group.push_back({il.multipv, il.pv[0]}); }
            }
        }
        closeGroup();
    }
    return a;
}

} // namespace ses

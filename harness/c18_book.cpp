// C18: the opening book never yields an illegal move.
// Real Book::getBookMove with BookFile set to in-memory files; every move code, every truncation / single-byte
// corruption / permutation of a well-formed book; every RNG outcome (Random::nextInt is scripted through --wrap).
#include "harness/common.hpp"
#include "harness/bridge.hpp"
#include "oracle/universes.hpp"
#include "book.hpp"
#include "polyglot.hpp"
#include "parameters.hpp"
#include <sys/syscall.h>
#include <numeric>
#include <functional>

using namespace vh;
static Result R;
static Worker* W;

// ---- scripted RNG (ld --wrap=_ZN6Random7nextIntEi)
static int scriptedR = -1;      // >= 0: value to return (mod modulo)
static int lastModulo = -1;     // modulo of the last call (= sum of weights)
extern "C" int __real__ZN6Random7nextIntEi(Random* self, int modulo);
extern "C" int __wrap__ZN6Random7nextIntEi(Random* self, int modulo) {
    lastModulo = modulo;
    R.count("rng_calls");
    if (scriptedR >= 0) return scriptedR < modulo ? scriptedR : modulo - 1;
    return __real__ZN6Random7nextIntEi(self, modulo);
}

// ---- in-memory book file
struct MemFile {
    int fd; std::string path;
    MemFile() { fd = (int)syscall(SYS_memfd_create, "book", 0); path = "/proc/self/fd/" + std::to_string(fd); }
    ~MemFile() { close(fd); }
    void set(const std::string& bytes) {
        if (ftruncate(fd, 0) != 0) abort();
        if (pwrite(fd, bytes.data(), bytes.size(), 0) != (ssize_t)bytes.size()) abort();
    }
};

static std::string entryBytes(U64 key, U16 move, U16 weight) {
    PolyglotBook::PGEntry e; PolyglotBook::serialize(key, move, weight, e);
    return std::string((const char*)e.data, 16);
}

static std::string hex(const std::string& b) { static const char* d = "0123456789abcdef"; std::string s; for (unsigned char c : b) { s += d[c >> 4]; s += d[c & 15]; } return s; }

/** Probe with every RNG outcome; returns set of returned move codes (-1 = no move). Checks legality. */
static std::set<int> probeAll(Book& book, const Position& pos0, const orc::Board& b, const std::string& what, const std::string& fileHex) {
    std::set<int> got;
    std::set<int> legal = br::codes(orc::legalMoves(b));
    int sum = 1;
    auto probe = [&](int r) -> int {
        Position pos(pos0);
        scriptedR = r; lastModulo = -1;
        Move m;
        book.getBookMove(pos, m);
        R.count("transitions");
        if (lastModulo > 0) sum = lastModulo;
        int c = m.isEmpty() ? -1 : br::code(m);
        got.insert(c);
        if (c >= 0 && !legal.count(c))
            R.violation("illegal-book-move", what + " r=" + std::to_string(r) + " returned " + br::codeStr(c) + " in " + orc::toFEN(b),
                        "{\"kind\":\"fault\",\"what\":\"" + jsonEsc(what) + "\",\"fen\":\"" + jsonEsc(orc::toFEN(b)) + "\",\"file\":\"" + fileHex + "\",\"r\":" + std::to_string(r) + "}");
        return c;
    };
    probe(0);
    if (sum <= 4096) { for (int r = 1; r < sum; r++) probe(r); }
    else {
        // corrupted weight bytes give sums up to 8*65535: all outcomes of a step function of r are found by bisection
        // (assumes the selection is monotone in r, as a prefix-sum scan is), plus the first and last 64 values exhaustively.
        R.count("huge_sum");
        int total = sum;
        for (int r = 1; r < 64; r++) { probe(r); probe(total - r); }
        std::function<void(int, int, int, int)> bis = [&](int lo, int flo, int hi, int fhi) {
            if (hi - lo <= 1 || flo == fhi) return;
            int mid = lo + (hi - lo) / 2; int fm = probe(mid);
            bis(lo, flo, mid, fm); bis(mid, fm, hi, fhi);
        };
        int f0 = probe(0), f1 = probe(total - 1);
        bis(0, f0, total - 1, f1);
    }
    scriptedR = -1;
    return got;
}

static std::vector<std::string> POS = {
    "rnbqkbnr/pppppppp/8/8/8/8/PPPPPPPP/RNBQKBNR w KQkq - 0 1",
    "r3k2r/pppq1ppp/2npbn2/2b1p3/2B1P3/2NPBN2/PPPQ1PPP/R3K2R w KQkq - 0 1",
    "r3k2r/pppq1ppp/2npbn2/2b1p3/2B1P3/2NPBN2/PPPQ1PPP/R3K2R b KQkq - 0 1",
    "4k3/P6P/8/8/8/8/p6p/4K3 w - - 0 1",
    "rnbqkbnr/pppppppp/8/8/4P3/8/PPPP1PPP/RNBQKBNR b KQkq e3 0 1",
};

static void allCodes(Book& book, MemFile& mf) {
    unsigned long long id = 0;
    for (auto& fen : POS) {
        Position pos = TextIO::readFEN(fen);
        orc::Board b = br::fromTexel(pos);
        U64 key = PolyglotBook::getHashKey(pos);
        for (int code = 0; code < 65536; code++) {
            if (!W->mine(id++)) continue;
            std::string file = entryBytes(key, (U16)code, 1);
            mf.set(file);
            if ((code & 1023) == 0) W->crumb("allcodes " + fen + " code=" + std::to_string(code));
            R.count("states");
            std::set<int> got = probeAll(book, pos, b, "one-entry book code=" + std::to_string(code), hex(file));
            if (!(got.size() == 1 && *got.begin() == -1)) { R.count("nontrivial"); R.outcome(fen.substr(0, 12) + ":" + br::codeStr(*got.rbegin())); }
        }
    }
}

/** Polyglot move word, written from the format description (not with the engine's encoder): to-file, to-row, from-file, from-row, promotion
 *  piece (1 N, 2 B, 3 R, 4 Q); castling is "king takes own rook". */
static U16 pgEncode(const orc::Board& b, const orc::Mv& m) {
    int from = m.from, to = m.to;
    int t = orc::typeOf(b.sq[from]);
    if (t == 1 && abs(orc::X(to) - orc::X(from)) == 2) to = orc::X(to) == 6 ? from + 3 : from - 4;
    int promo = 0;
    if (m.promo) { int pt = orc::typeOf(m.promo); promo = pt == 5 ? 1 : pt == 4 ? 2 : pt == 3 ? 3 : 4; }
    return (U16)(orc::X(to) | (orc::Y(to) << 3) | (orc::X(from) << 6) | (orc::Y(from) << 9) | (promo << 12));
}

/** Polyglot key computed from the format description with the published random table (the engine's copy of that table is data, the mapping of
 *  pieces / castling rights / en-passant file / side to table rows is re-derived here): kind = 2 * {pawn 0, knight 1, bishop 2, rook 3, queen 4, king 5}
 *  + (white ? 1 : 0); castling 768 + {white short, white long, black short, black long}; en passant 772 + file; white to move 780. */
static U64 pgKey(const orc::Board& b) {
    static const int kindOfType[7] = {-1, 5, 4, 3, 2, 1, 0};   // oracle types: 1 K 2 Q 3 R 4 B 5 N 6 P
    U64 key = 0;
    for (int sq = 0; sq < 64; sq++) { int pc = b.sq[sq]; if (!pc) continue; int kind = 2 * kindOfType[orc::typeOf(pc)] + (orc::isWhiteP(pc) ? 1 : 0); key ^= PolyglotBook::hashRandoms[64 * kind + sq]; }
    if (b.castle & 2) key ^= PolyglotBook::hashRandoms[768 + 0];
    if (b.castle & 1) key ^= PolyglotBook::hashRandoms[768 + 1];
    if (b.castle & 8) key ^= PolyglotBook::hashRandoms[768 + 2];
    if (b.castle & 4) key ^= PolyglotBook::hashRandoms[768 + 3];
    if (b.ep >= 0) key ^= PolyglotBook::hashRandoms[772 + orc::X(b.ep)];
    if (b.wtm) key ^= PolyglotBook::hashRandoms[780];
    return key;
}

/** Every legal move of every position of a list, stored alone under the position's key in an otherwise well-formed book: the probe must return
 *  exactly that move (decode errors for particular move geometries: castling look-alikes, promotions, en passant, corner moves). */
static void legalMoves(Book& book, MemFile& mf) {
    std::vector<std::string> fens = POS;
    for (const char* f : {"k7/8/8/8/8/8/5K2/4Q2r w - - 0 1", "4q2R/5k2/8/8/8/8/8/K7 b - - 0 1", "k7/8/8/8/8/8/5K2/4R3 w - - 0 1", "4r3/5k2/8/8/8/8/4P3/R3K2R b KQ - 0 1",
                          "r3k2r/4p3/8/8/8/8/8/4RK2 w kq - 0 1", "4k3/8/8/8/8/8/8/R3K2R w KQ - 0 1", "r3k2r/8/8/8/8/8/8/4K3 b kq - 0 1", "8/2P1k3/8/8/8/8/4K1p1/5N1R b - - 0 1"}) fens.push_back(f);
    // every subset of the castling rights of positions in which both sides have king and rooks at home (keys with a single right per side)
    for (const char* side : {"w", "b"}) for (int r = 0; r < 16; r++) {
        std::string c; if (r & 1) c += 'K'; if (r & 2) c += 'Q'; if (r & 4) c += 'k'; if (r & 8) c += 'q'; if (c.empty()) c = "-";
        fens.push_back(std::string("r3k2r/pppq1ppp/2npbn2/2b1p3/2B1P3/2NPBN2/PPPQ1PPP/R3K2R ") + side + " " + c + " - 0 1");
    }
    // anchor of the independent key: the published key of the initial position
    { orc::Board sp = orc::startPos(); if (pgKey(sp) != 0x463b96181691fc9cULL) { fprintf(stderr, "legalmoves: independent polyglot key of the initial position is %016llx, the format description says 463b96181691fc9c\n", (unsigned long long)pgKey(sp)); exit(2); } }
    auto seeds = uni::readSeeds("corpus/seeds.fen");
    uni::Part all{0, 1};
    uni::UPERFT(seeds, 1, all, [&](const orc::Board& b, unsigned long long, int) { fens.push_back(orc::toFEN(b)); });
    unsigned long long id = 0;
    for (auto& fen : fens) {
        if (!W->mine(id++)) continue;
        Position pos; try { pos = TextIO::readFEN(fen); } catch (const ChessParseError& e) { fprintf(stderr, "legalmoves: position list contains an invalid FEN: %s (%s)\n", fen.c_str(), e.what()); exit(2); }
        orc::Board b = br::fromTexel(pos);
        U64 key = pgKey(b);      // the book is written with the independent key: a wrong key on the engine's side makes the stored move unreachable
        if (key != PolyglotBook::getHashKey(pos)) R.violation("polyglot-key-differs-from-format", fen, "{\"kind\":\"input\",\"fen\":\"" + jsonEsc(fen) + "\"}");
        W->crumb("legalmoves " + fen);
        for (auto& m : orc::legalMoves(b)) {
            std::string file = entryBytes(key - 7, 0x0123, 3) + entryBytes(key, pgEncode(b, m), 5) + entryBytes(key + 7, 0x0456, 2);
            mf.set(file);
            R.count("states"); R.count("nontrivial");
            std::set<int> got = probeAll(book, pos, b, "single stored move " + orc::uci(m), hex(file));
            if (!(got.size() == 1 && *got.begin() == m.code()))
                R.violation(got.size() == 1 && *got.begin() == -1 ? "stored-move-never-returned" : "wellformed-returns-unstored-move",
                            fen + " stored " + orc::uci(m) + " got " + [&]() { std::string t; for (int c : got) { if (!t.empty()) t += ' '; t += c < 0 ? std::string("none") : br::codeStr(c); } return t; }(), "{\"kind\":\"fault\",\"what\":\"single stored move\",\"fen\":\"" + jsonEsc(fen) + "\",\"file\":\"" + hex(file) + "\"}");
        }
    }
}

struct WF { std::string fen; std::vector<std::pair<std::string,int>> moves; }; // uci move text + weight stored under key(P)

static void wellFormed(Book& book, MemFile& mf, const std::string& mode) {
    std::vector<WF> books = {
        {POS[0], {{"e2e4", 2}, {"d2d4", 0}, {"g1f3", 1}}},
        {POS[1], {{"e1g1", 1}, {"e1c1", 2}, {"a2a3", 1}}},        // castling: stored in polyglot encoding (king takes rook)
        {POS[2], {{"e8g8", 3}, {"e8c8", 1}, {"h7h6", 0}}},
        {POS[3], {{"a7a8q", 1}, {"h7h8n", 2}, {"e1d1", 1}}},
    };
    unsigned long long id = 0;
    for (auto& wf : books) {
        Position pos = TextIO::readFEN(wf.fen);
        orc::Board b = br::fromTexel(pos);
        U64 key = PolyglotBook::getHashKey(pos);
        std::vector<std::string> ents;
        ents.push_back(entryBytes(key - 1000, 0x0123, 5));
        ents.push_back(entryBytes(key - 1, 0x0fff, 7));
        std::set<int> stored, storedPos;
        for (auto& mv : wf.moves) {
            Move m = TextIO::uciStringToMove(mv.first);
            ents.push_back(entryBytes(key, PolyglotBook::getPGMove(pos, m), (U16)mv.second));
            stored.insert(br::code(m)); if (mv.second > 0) storedPos.insert(br::code(m));
        }
        ents.push_back(entryBytes(key + 1, 0x0123, 5));
        ents.push_back(entryBytes(key + 1, 0x0456, 1));
        ents.push_back(entryBytes(key + 100000, 0x0001, 9));
        std::string good; for (auto& e : ents) good += e;
        if (mode == "wf") {
            if (!W->mine(id++)) continue;
            mf.set(good);
            W->crumb("wellformed " + wf.fen);
            R.count("states"); R.count("nontrivial");
            std::set<int> got = probeAll(book, pos, b, "well-formed book", hex(good));
            for (int c : got) if (c < 0 || !stored.count(c)) R.violation("wellformed-returns-unstored-move", wf.fen + " got " + (c < 0 ? "none" : br::codeStr(c)), "{}");
            for (int c : storedPos) if (!got.count(c)) R.violation("wellformed-positive-weight-move-never-returned", wf.fen + " " + br::codeStr(c), "{}");
            for (int c : stored) if (!storedPos.count(c) && got.count(c)) R.violation("wellformed-zero-weight-move-returned", wf.fen + " " + br::codeStr(c), "{}");
            R.outcome("wf:" + br::setStr(got));
            // getAllBookMoves must not crash either
            std::string all = book.getAllBookMoves(pos); (void)all;
            continue;
        }
        auto run = [&](const std::string& file, const std::string& what) {
            if (!W->mine(id++)) return;
            mf.set(file);
            if ((id & 255) == 0) W->crumb(what + " " + wf.fen);
            R.count("states");
            std::set<int> got = probeAll(book, pos, b, what, hex(file));
            if (!(got.size() == 1 && *got.begin() == -1)) R.count("nontrivial");
        };
        if (mode == "trunc") {
            for (size_t n = 0; n <= good.size(); n++) run(good.substr(0, n), "truncated to " + std::to_string(n));
            for (size_t n = 1; n < good.size(); n++) run(good.substr(n), "head cut " + std::to_string(n));
        } else if (mode == "bytes") {
            for (size_t off = 0; off < good.size(); off++) for (int v = 0; v < 256; v++) {
                if ((unsigned char)good[off] == v) continue;
                std::string f = good; f[off] = (char)v;
                run(f, "byte " + std::to_string(off) + "=" + std::to_string(v));
            }
        } else if (mode == "perm") {
            std::vector<int> p(ents.size()); std::iota(p.begin(), p.end(), 0);
            do {
                std::string f; for (int i : p) f += ents[i];
                run(f, "permutation");
            } while (std::next_permutation(p.begin(), p.end()));
        }
    }
    if (mode == "trunc" && W->idx == 0) {
        // missing file
        Position pos = TextIO::readFEN(POS[0]); orc::Board b = br::fromTexel(pos);
        UciParams::bookFile->set("/nonexistent/dir/book.bin");
        R.count("states");
        std::set<int> got = probeAll(book, pos, b, "missing file", "");
        if (!(got.size() == 1 && *got.begin() == -1)) R.violation("missing-file-returns-move", "", "{}");
        UciParams::bookFile->set(mf.path);
    }
}

static void builtin(Book& book) {
    UciParams::bookFile->set("");
    book.initBook();
    // every position along every line of the built-in book
    std::set<std::string> seen;
    unsigned long long id = 0;
    for (size_t i = 0; Book::bookLines[i]; i++) {
        std::vector<std::string> mv; splitString(Book::bookLines[i], mv);
        Position pos = TextIO::readFEN(TextIO::startPosFEN);
        UndoInfo ui;
        for (size_t k = 0; k <= mv.size(); k++) {
            std::string fen = TextIO::toFEN(pos);
            if (seen.insert(fen).second && W->mine(id++)) {
                W->crumb("builtin " + fen);
                orc::Board b = br::fromTexel(pos);
                R.count("states");
                std::vector<Book::BookEntry> ents; book.getBookEntries(pos, ents);
                std::set<int> stored; for (auto& e : ents) stored.insert(br::code(e.move));
                std::set<int> got = probeAll(book, pos, b, "built-in book", "");
                if (!ents.empty()) {
                    R.count("nontrivial");
                    for (int c : got) if (c < 0 || !stored.count(c)) R.violation("builtin-returns-unstored-move", fen + " " + (c < 0 ? "none" : br::codeStr(c)), "{}");
                    for (int c : stored) if (!got.count(c)) R.violation("builtin-stored-move-never-returned", fen + " " + br::codeStr(c), "{}");
                    if (R.samples.size() < 2) R.sampleStr(fen + " -> " + br::setStr(got));
                } else if (!(got.size() == 1 && *got.begin() == -1)) R.violation("builtin-move-without-entry", fen, "{}");
            }
            if (k == mv.size()) break;
            std::string s = mv[k]; if (!s.empty() && s.back() == '?') s.pop_back();
            Move m = TextIO::stringToMove(pos, s);
            if (m.isEmpty()) break;
            pos.makeMove(m, ui);
        }
    }
}

int main(int argc, char** argv) {
    Worker w(argc, argv); W = &w;
    br::initTexel();
    std::string part = w.args.get("part", "allcodes");
    R.part = part;
    MemFile mf;
    UciParams::bookFile->set(mf.path);
    Book book(false);
    if (w.args.has("replay")) {
        std::string txt = readFile(w.args.get("replay"));
        std::string fen = jsonGetStr(txt, "fen"), fh = jsonGetStr(txt, "file");
        std::string file; for (size_t i = 0; i + 1 < fh.size(); i += 2) file += (char)strtol(fh.substr(i, 2).c_str(), nullptr, 16);
        mf.set(file);
        if (fh.empty()) UciParams::bookFile->set("");
        Position pos = TextIO::readFEN(fen);
        probeAll(book, pos, br::fromTexel(pos), "replay", fh);
        w.finish(R); return 0;
    }
    if (part == "allcodes") allCodes(book, mf);
    else if (part == "wf" || part == "trunc" || part == "bytes" || part == "perm") wellFormed(book, mf, part);
    else if (part == "builtin") builtin(book);
    else if (part == "legalmoves") legalMoves(book, mf);
    else return 2;
    w.finish(R);
    return 0;
}

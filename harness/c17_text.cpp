// C17: move, position and game text formats round-trip and reject garbage safely.
#include "harness/common.hpp"
#include "harness/bridge.hpp"
#include "oracle/universes.hpp"
#include "gametree.hpp"
#include "chessError.hpp"
#include <csignal>

using namespace vh;
static Result R;
static Worker* W;

// ---------------------------------------------------------------- (1) move text round trips
static void checkMoves(const orc::Board& b0) {
    std::string fen = orc::toFEN(b0);
    W->crumb(fen);
    Position pos;
    try { pos = TextIO::readFEN(fen); } catch (const ChessParseError&) { R.count("rejected"); return; }
    orc::Board b = br::fromTexel(pos);
    R.count("states");
    std::vector<orc::Mv> lm = orc::legalMoves(b);
    std::map<std::string, int> shortForms;
    bool nt = false;
    auto rep = [&](const orc::Mv& m) { return "{\"kind\":\"input\",\"fen\":\"" + jsonEsc(fen) + "\",\"move\":\"" + orc::uci(m) + "\"}"; };
    for (const orc::Mv& m : lm) {
        R.count("transitions");
        Move tm = br::toTexel(m);
        std::string s = TextIO::moveToString(pos, tm, false);
        std::string l = TextIO::moveToString(pos, tm, true);
        std::string u = TextIO::moveToUCIString(tm);
        Move ps = TextIO::stringToMove(pos, s);
        Move pl = TextIO::stringToMove(pos, l);
        Move pu = TextIO::uciStringToMove(u);
        if (!(ps == tm)) R.violation("short-form-roundtrip", fen + " " + orc::uci(m) + " -> '" + s + "' -> " + TextIO::moveToUCIString(ps), rep(m));
        if (!(pl == tm)) R.violation("long-form-roundtrip", fen + " " + orc::uci(m) + " -> '" + l + "' -> " + TextIO::moveToUCIString(pl), rep(m));
        if (!(pu == tm)) R.violation("uci-form-roundtrip", fen + " " + orc::uci(m) + " -> '" + u + "' -> " + TextIO::moveToUCIString(pu), rep(m));
        if (u != orc::uci(m)) R.violation("uci-form-text", fen + " " + orc::uci(m) + " -> '" + u + "'", rep(m));
        // the long and UCI forms are also accepted by stringToMove
        Move pu2 = TextIO::stringToMove(pos, u);
        if (!(pu2 == tm)) R.count("uci_text_not_accepted_by_stringToMove");
        auto it = shortForms.find(s);
        if (it != shortForms.end() && it->second != m.code())
            R.violation("short-form-shared", fen + " '" + s + "' for " + br::codeStr(it->second) + " and " + orc::uci(m), rep(m));
        shortForms[s] = m.code();
        if ((R.counters["states"] & 63) == 1) { std::string fide = orc::san(b, m); if (fide != s) R.count("differs_from_fide_san"); }
        if (s.size() >= 4 && s[0] != 'O' && isupper((unsigned char)s[0]) && (islower((unsigned char)s[1]) || isdigit((unsigned char)s[1])) && s[1] != 'x' &&
            (s.size() > 3 && (isalpha((unsigned char)s[2]) || isdigit((unsigned char)s[2])))) { nt = true; }
        if (m.promo) nt = true;
    }
    if (nt) { R.count("nontrivial"); if (R.samples.size() < 3) R.sampleStr(fen); }
}

/** U-LIKE: K + three like pieces on a 4x4 sub-board v K (+ optionally one black rook anywhere to create pins). */
static void ulike(const uni::Part& P, bool withRook, int kingStep) {
    unsigned long long c = 0;
    static const int types[4] = {orc::WN, orc::WR, orc::WQ, orc::WB};
    int sub[16]; int n = 0;
    for (int y = 2; y < 6; y++) for (int x = 2; x < 6; x++) sub[n++] = y * 8 + x;
    for (int t = 0; t < 4; t++)
    for (int i = 0; i < 16; i++) for (int j = i + 1; j < 16; j++) for (int k = j + 1; k < 16; k++)
    for (int wk = 0; wk < 64; wk += kingStep) for (int bk = 0; bk < 64; bk += kingStep) {
        int rmax = withRook ? 64 : 1;
        for (int rs = 0; rs < rmax; rs++) {
            unsigned long long id = c++;
            if (!P.mine(id)) continue;
            orc::Board b;
            b.sq[sub[i]] = b.sq[sub[j]] = b.sq[sub[k]] = (signed char)types[t];
            if (b.sq[wk] || b.sq[bk] || wk == bk) continue;
            b.sq[wk] = orc::WK; b.sq[bk] = orc::BK;
            if (withRook) { if (b.sq[rs]) continue; b.sq[rs] = orc::BR; }
            b.wtm = true;
            if (uni::validPlacement(b)) checkMoves(b);
        }
    }
}

// ---------------------------------------------------------------- (2) PGN game tree round trips
struct TNode { orc::Mv mv; std::vector<TNode> ch; std::string pre, post; int nag = 0; };

static void writePgn(const orc::Board& b, const TNode& node, std::vector<std::string>& out, bool forceNumber) {
    // node is a position node: its children are alternatives; children[0] is the main line. Emits PGN tokens.
    if (node.ch.empty()) return;
    auto emitMove = [&](const TNode& c, bool force) {
        if (!c.pre.empty()) out.push_back("{" + c.pre + "}");
        if (b.wtm) { out.push_back(std::to_string(b.fullMove)); out.push_back("."); }
        else if (force) { out.push_back(std::to_string(b.fullMove)); out.push_back("..."); }
        out.push_back(orc::san(b, c.mv));
        if (c.nag) out.push_back("$" + std::to_string(c.nag));
        if (!c.post.empty()) out.push_back("{" + c.post + "}");
    };
    emitMove(node.ch[0], forceNumber);
    for (size_t i = 1; i < node.ch.size(); i++) {
        out.push_back("(");
        emitMove(node.ch[i], true);
        writePgn(orc::apply(b, node.ch[i].mv), node.ch[i], out, false);
        out.push_back(")");
    }
    writePgn(orc::apply(b, node.ch[0].mv), node.ch[0], out, node.ch.size() > 1);
}

/** Join PGN tokens. style 0: one space between all tokens; 1: minimal white space (export style "1.e4 e5 2.Nf3$1(2.f4)");
 *  2: one token per line. */
static std::string joinPgn(const std::vector<std::string>& toks, int style) {
    auto symChar = [](char c) { return !isspace((unsigned char)c) && std::string(".*[](){;\"$").find(c) == std::string::npos; };
    std::string s;
    for (size_t i = 0; i < toks.size(); i++) {
        if (i) {
            if (style == 0) s += ' ';
            else if (style == 2) s += '\n';
            else {
                const std::string& a = toks[i-1]; const std::string& b = toks[i];
                bool need = symChar(a.back()) && symChar(b[0]);
                if (a[0] == '$' && isdigit((unsigned char)b[0])) need = true;
                if (need) s += ' ';
            }
        }
        s += toks[i];
    }
    return s;
}

static bool sameTree(const TNode& t, const std::shared_ptr<Node>& n, bool annotations, std::string& why) {
    const auto& ch = n->getChildren();
    if (ch.size() != t.ch.size()) { why = "child count " + std::to_string(ch.size()) + " vs " + std::to_string(t.ch.size()); return false; }
    for (size_t i = 0; i < ch.size(); i++) {
        if (br::code(ch[i]->getMove()) != t.ch[i].mv.code()) { why = "move " + TextIO::moveToUCIString(ch[i]->getMove()) + " vs " + orc::uci(t.ch[i].mv); return false; }
        if (annotations) {
            if (ch[i]->getNag() != t.ch[i].nag) { why = "nag"; return false; }
            if (ch[i]->getPreComment() != t.ch[i].pre) { why = "pre-comment '" + ch[i]->getPreComment() + "' vs '" + t.ch[i].pre + "'"; return false; }
            if (ch[i]->getPostComment() != t.ch[i].post) { why = "post-comment '" + ch[i]->getPostComment() + "' vs '" + t.ch[i].post + "'"; return false; }
        }
        if (!sameTree(t.ch[i], ch[i], annotations, why)) return false;
    }
    return true;
}

static void annotate(TNode& t, int pattern, int& counter) {
    for (auto& c : t.ch) {
        int k = counter++;
        c.pre.clear(); c.post.clear(); c.nag = 0;
        if (pattern == 1) c.post = "c" + std::to_string(k);
        if (pattern == 2) c.nag = (k % 2) ? 1 : 6;
        if (pattern == 3) { c.post = "after (x) [y] ; % $3 1. e4 \n x% " + std::to_string(k); c.nag = 1 + k % 6; if (&c != &t.ch[0] || k == 0) c.pre = "before " + std::to_string(k); }
        annotate(c, pattern, counter);
    }
}

static unsigned long long treeId = 0;
static void checkTree(const orc::Board& root, TNode& t, int nNodes) {
    unsigned long long id = treeId++;
    if (!W->mine(id)) return;
    for (int pv = 0; pv < 12; pv++) {
        int pattern = pv % 4, style = pv / 4;
        int ctr = 0; annotate(t, pattern, ctr);
        std::string pgn = "[Event \"x\"]\n[FEN \"" + orc::toFEN(root) + "\"]\n[SetUp \"1\"]\n\n";
        std::vector<std::string> toks; writePgn(root, t, toks, false);
        toks.push_back("*");
        pgn += joinPgn(toks, style) + "\n";
        W->crumb(pgn);
        R.count("states");
        if (nNodes >= 3 && pattern) R.count("nontrivial");
        std::istringstream is(pgn);
        PgnReader reader(is);
        GameTree gt;
        bool ok = false;
        std::string why;
        try { ok = reader.readPGN(gt); } catch (const ChessParseError& e) { why = std::string("exception ") + e.what(); }
        auto rep = [&]() { return "{\"kind\":\"input\",\"pgn\":\"" + jsonEsc(pgn) + "\"}"; };
        if (!ok) { R.violation("pgn-not-read", pgn + " : " + why, rep()); continue; }
        R.count("transitions");
        if (!sameTree(t, gt.getRootNode().getNode(), true, why)) R.violation("pgn-tree-differs", pgn + " : " + why, rep());
        if (pv == 0) {
            // texel's own writer (variations syntax, no numbers/comments) -> reader
            std::string s; std::set<GameTree::RangeToNode> ranges;
            gt.getGameTreeString(s, ranges);
            std::string pgn2 = "[FEN \"" + orc::toFEN(root) + "\"]\n\n" + s + " *\n";
            std::istringstream is2(pgn2); PgnReader r2(is2); GameTree gt2;
            bool ok2 = false;
            try { ok2 = r2.readPGN(gt2); } catch (const ChessParseError& e) { why = e.what(); }
            if (!ok2 || !sameTree(t, gt2.getRootNode().getNode(), false, why)) R.violation("gameTreeString-roundtrip", pgn2 + " : " + why, rep());
            if (R.samples.size() < 2 && nNodes >= 4) R.sampleStr(s);
        }
    }
}

// Simpler canonical enumeration: a tree is a nested list; generate recursively "all forests with k nodes under this position".
static void forests(const orc::Board& b, int k, std::vector<std::vector<TNode>>& out, int maxWidth);
static std::map<std::pair<std::string,int>, std::vector<std::vector<TNode>>> memo;
static void forests(const orc::Board& b, int k, std::vector<std::vector<TNode>>& out, int maxWidth) {
    out.clear();
    if (k == 0) { out.push_back({}); return; }
    std::vector<orc::Mv> lm = orc::legalMoves(b);
    std::sort(lm.begin(), lm.end());
    if ((int)lm.size() > maxWidth) lm.resize(maxWidth);
    // ordered selection of distinct moves m1..mj with subtree sizes s1..sj, sum(1+si) = k
    std::function<void(std::vector<TNode>&, int, unsigned)> rec = [&](std::vector<TNode>& cur, int left, unsigned usedMask) {
        if (left == 0) { out.push_back(cur); return; }
        for (size_t mi = 0; mi < lm.size(); mi++) {
            if (usedMask & (1u << mi)) continue;
            orc::Board nb = orc::apply(b, lm[mi]);
            for (int s = 0; s <= left - 1; s++) {
                std::vector<std::vector<TNode>> sub;
                forests(nb, s, sub, maxWidth);
                for (auto& f : sub) {
                    TNode t; t.mv = lm[mi]; t.ch = f;
                    cur.push_back(t);
                    rec(cur, left - 1 - s, usedMask | (1u << mi));
                    cur.pop_back();
                }
            }
        }
    };
    std::vector<TNode> cur;
    rec(cur, k, 0);
}

static void pgnTrees(int maxNodes) {
    std::vector<std::string> roots = {
        "rnbqkbnr/pppppppp/8/8/8/8/PPPPPPPP/RNBQKBNR w KQkq - 0 1",
        "4k3/8/8/2N1N3/8/2N1N3/8/4K3 b - - 5 40",          // black to move, like pieces next
        "r3k2r/1P4P1/8/8/8/8/1p4p1/R3K2R w KQkq - 0 1",    // promotions, castling
    };
    for (auto& rf : roots) {
        orc::Board root; orc::fromFEN(rf, root);
        for (int k = 1; k <= maxNodes; k++) {
            std::vector<std::vector<TNode>> fs;
            forests(root, k, fs, 3);
            for (auto& f : fs) { TNode rn; rn.ch = f; checkTree(root, rn, k); if (W->dl.hit()) { R.exhaustive = false; return; } }
            R.outcome(rf.substr(0, 8) + " nodes=" + std::to_string(k) + " trees=" + std::to_string(fs.size()));
        }
    }
}

// ---------------------------------------------------------------- (3) garbage
static volatile sig_atomic_t alarmed = 0;
static void onAlarm(int) {
    // a parser that does not return within the step budget: report through the crumb and die
    const char msg[] = "\n[harness] HANG: parser did not return within the time budget\n";
    if (write(2, msg, sizeof msg - 1)) {}
    _exit(3);
}

static void useAcceptedPosition(Position& pos, const std::string& input) {
    // reader post-conditions + the position must be usable by hashing / move generation / FEN writer
    int wk = 0, bk = 0;
    for (int s = 0; s < 64; s++) { int p = pos.getPiece(Square(s)); wk += p == Piece::WKING; bk += p == Piece::BKING; }
    auto rep = [&]() { return "{\"kind\":\"input\",\"fen\":\"" + jsonEsc(input) + "\"}"; };
    if (wk != 1 || bk != 1) R.violation("accepted-fen-king-count", input, rep());
    Position p2(pos); p2.setWhiteMove(!pos.isWhiteMove());
    if (MoveGen::inCheck(p2)) R.violation("accepted-fen-king-capturable", input, rep());
    volatile U64 h = pos.historyHash() ^ pos.bookHash() ^ pos.zobristHash(); (void)h;
    MoveList ml; MoveGen::pseudoLegalMoves(pos, ml); MoveGen::removeIllegal(pos, ml);
    std::string f = TextIO::toFEN(pos);
    try { Position q = TextIO::readFEN(f); if (!q.drawRuleEquals(pos)) R.violation("accepted-fen-rewrite-differs", input + " -> " + f, rep()); }
    catch (const ChessParseError&) { R.violation("accepted-fen-rewrite-rejected", input + " -> " + f, rep()); }
    for (int i = 0; i < ml.size; i++) { volatile size_t n = TextIO::moveToString(pos, ml[i], false).size(); (void)n; }
    R.count("accepted");
}

static void tryFEN(const std::string& s) {
    W->crumb("FEN:" + s);
    R.count("states"); R.count("transitions");
    try { Position pos = TextIO::readFEN(s); useAcceptedPosition(pos, s); }
    catch (const ChessParseError&) { R.count("rejected"); }
    catch (const ChessError&) { R.count("rejected"); }
}
static void tryMove(Position& pos, const std::string& s) {
    W->crumb("MOVE:" + s);
    R.count("states"); R.count("transitions");
    try {
        Move m = TextIO::stringToMove(pos, s);
        if (!m.isEmpty()) {
            MoveList ml; MoveGen::pseudoLegalMoves(pos, ml); MoveGen::removeIllegal(pos, ml);
            bool legal = false; for (int i = 0; i < ml.size; i++) if (ml[i] == m) legal = true;
            if (!legal) R.violation("stringToMove-returned-illegal-move", s, "{\"kind\":\"input\",\"move\":\"" + jsonEsc(s) + "\"}");
            R.count("accepted");
        } else R.count("rejected");
        Move u = TextIO::uciStringToMove(s); (void)u;
        Square q = TextIO::getSquare(s); (void)q;
    } catch (const ChessParseError&) { R.count("rejected"); }
}
static void tryPGN(const std::string& s) {
    W->crumb("PGN:" + s);
    R.count("states"); R.count("transitions");
    std::istringstream is(s);
    std::stringstream errSink;
    std::streambuf* old = std::cerr.rdbuf(errSink.rdbuf());
    try {
        PgnReader reader(is);
        GameTree gt; int games = 0;
        while (games < 50 && reader.readPGN(gt)) {
            games++;
            std::string str; std::set<GameTree::RangeToNode> rng; gt.getGameTreeString(str, rng);
            std::map<std::string, std::string> hdr; gt.getHeaders(hdr);
        }
        R.count("accepted");
    } catch (const ChessParseError&) { R.count("rejected"); }
    catch (const ChessError&) { R.count("rejected"); }
    std::cerr.rdbuf(old);
}

template <class F> static void tokenSeqs(const std::vector<std::string>& alpha, int maxLen, const std::string& sep, F f) {
    unsigned long long id = 0;
    std::vector<int> idx;
    for (int len = 0; len <= maxLen; len++) {
        idx.assign(len, 0);
        while (true) {
            if (W->mine(id++)) {
                std::string s;
                for (int i = 0; i < len; i++) { if (i) s += sep; s += alpha[idx[i]]; }
                f(s);
            }
            int k = len - 1;
            while (k >= 0 && ++idx[k] == (int)alpha.size()) { idx[k] = 0; k--; }
            if (k < 0) break;
        }
        if (W->dl.hit()) { R.exhaustive = false; return; }
    }
}

static void garbage(const std::string& what, bool thorough) {
    signal(SIGALRM, onAlarm);
    alarm(thorough ? 3000 : 600);
    if (what == "fen") {
        // 6 fields, each from a per-field alphabet: full product
        std::vector<std::vector<std::string>> F = {
            {"rnbqkbnr/pppppppp/8/8/8/8/PPPPPPPP/RNBQKBNR", "", "8/8/8/8/8/8/8/8", "k7/8/8/8/8/8/8/K7", "kk6/8/8/8/8/8/8/K7", "k7/8/8/8/8/8/8/8",
             "kR6/8/8/8/8/8/8/K7", "rnbqkbnr/ppppppppp/8/8/8/8/PPPPPPPP/RNBQKBNR", "k7/8/8/8/8/8/8/8/K7", "k7/8/8/3pP3/8/8/8/K7", "k7/8/8/8/3Pp3/8/8/K7",
             "k7/9/8/8/8/8/8/K7", "k7/8/8/8/8/8/8/K6X", "r3k2r/8/8/8/8/8/8/R3K2R", "k6P/8/8/8/8/8/8/K6p", std::string(300, 'K'), "8/8/8/8/8/8/8/k7/K", "kqqqqqqq/qqqqqqqq/qqqqqqqq/qqqqqqqq/QQQQQQQQ/QQQQQQQQ/QQQQQQQQ/KQQQQQQ1"},
            {"w", "b", "", "x", "W", "-"},
            {"KQkq", "-", "", "K", "kq", "KQkqKQkq", "X", "AHah"},
            {"-", "", "e3", "e6", "d6", "d3", "e", "e9", "i3", "a1", "h8", "--", "e33"},
            {"0", "", "99", "100", "-1", "-100", "x", "99999999999999999999", "2147483647", "-2147483648", "1e3"},
            {"1", "", "0", "-1", "65536", "x", "99999999999999999999", "2147483647"},
        };
        unsigned long long id = 0;
        size_t ix[6] = {0,0,0,0,0,0};
        while (true) {
            if (W->mine(id++)) {
                // join with single spaces; additionally variants truncated after each field
                std::string s;
                for (int k = 0; k < 6; k++) { if (k) s += ' '; s += F[k][ix[k]]; }
                tryFEN(s);
            }
            int k = 5;
            while (k >= 0 && ++ix[k] == F[k].size()) { ix[k] = 0; k--; }
            if (k < 0) break;
        }
        // truncations + double spaces + trailing garbage of a few valid FENs
        if (W->idx == 0) {
            std::vector<std::string> valid = {"rnbqkbnr/pppppppp/8/8/8/8/PPPPPPPP/RNBQKBNR w KQkq - 0 1", "r3k2r/8/8/3pP3/8/8/8/R3K2R w KQkq d6 12 34"};
            for (auto& v : valid) for (size_t n = 0; n <= v.size(); n++) { tryFEN(v.substr(0, n)); tryFEN(v.substr(0, n) + "  " + v.substr(n)); tryFEN(v.substr(n)); }
        }
    } else if (what == "fenbytes") {
        std::vector<std::string> valid = {
            "rnbqkbnr/pppppppp/8/8/8/8/PPPPPPPP/RNBQKBNR w KQkq - 0 1", "r3k2r/8/8/3pP3/8/8/8/R3K2R w KQkq d6 12 34", "8/8/8/8/R2p3k/8/2P5/6K1 b - c3 99 150",
            "4k3/8/8/8/8/qqqqq3/ppp5/7K b - - 0 1", "k7/8/8/8/8/8/8/K7 w - - 100 1", "n1n5/PPPk4/8/8/8/8/4Kppp/5N1N b - - 0 1"};
        unsigned long long id = 0;
        for (auto& v : valid) for (size_t off = 0; off < v.size(); off++) for (int val = 0; val < 256; val++) {
            if (!W->mine(id++)) continue;
            std::string s = v; s[off] = (char)val; tryFEN(s);
        }
    } else if (what == "move") {
        std::vector<std::string> alpha = {"K","Q","R","B","N","P","a","b","e","h","1","2","4","8","x","-","=","+","#","O-O","0-0-0","O-O-O","--","e2e4","e7e8q", std::string(256, 'e'), " ", "\xff", "9", "i"};
        std::vector<std::string> fens = {"rnbqkbnr/pppppppp/8/8/8/8/PPPPPPPP/RNBQKBNR w KQkq - 0 1", "r3k2r/1P4P1/8/8/8/8/1p4p1/R3K2R w KQkq - 0 1", "4k3/8/8/2N1N3/8/2N1N3/8/4K3 w - - 0 1"};
        for (auto& f : fens) { Position pos = TextIO::readFEN(f); tokenSeqs(alpha, thorough ? 4 : 3, "", [&](const std::string& s) { tryMove(pos, s); }); }
    } else if (what == "pgn") {
        std::vector<std::string> alpha = {"(", ")", "{", "}", "[", "]", "\"", "\\", ";", "%", "$", "$9999999999", "!", "??", "1.", "e4", "e5", "Nf3", "Zz9", "*", "1-0", "\n", "Event", "FEN", "8/8/8/8/8/8/8/8 w - - 0 1", "k7/8/8/8/8/8/8/K7 w - - 0 1"};
        tokenSeqs(alpha, thorough ? 5 : 4, " ", tryPGN);
    } else if (what == "pgnnest") {
        unsigned long long id = 0;
        for (int n = 1; n <= 4096; n = n < 64 ? n + 1 : n * 2) {
            if (!W->mine(id++)) continue;
            std::string open(n, '('), close(n, ')');
            tryPGN("1. e4 " + open); tryPGN("1. e4 " + open + close + " e5 *");
            // variations that contain moves recurse in Node::parsePgn: bounded by the 4 KB input domain of the property
            // (a variation level needs >= 3 characters; deeper nesting, > ~10^4 levels, overflows the stack: out of domain, see DESIGN)
            int nr = std::min(n, 1365);
            std::string closeR(nr, ')');
            std::string nest; for (int i = 0; i < nr; i++) nest += "( e4 "; tryPGN("1. e4 " + nest); tryPGN("1. e4 " + nest + closeR + " *");
            std::string nest2; for (int i = 0; i < std::min(n, 512); i++) nest2 += (i % 2 ? "( e4 e5 " : "( d4 d5 "); tryPGN("1. e4 e5 " + nest2);
            tryPGN(std::string(n, '{')); tryPGN("1. e4 {" + std::string(n, 'x')); tryPGN(std::string(n, '[')); tryPGN("[Event \"" + std::string(n, 'x'));
            tryPGN("[Event \"" + std::string(n, '\\')); tryPGN("1. e4 $" + std::string(n, '9') + " e5"); tryPGN(std::string(n, ';')); tryPGN("%" + std::string(n, '%'));
            std::string many; for (int i = 0; i < n; i++) many += "[A \"b\"]\n"; tryPGN(many + "\n1. e4 *");
            std::string games; for (int i = 0; i < n && i < 200; i++) games += "[Event \"g\"]\n\n1. e4 e5 2. Nf3 *\n\n"; tryPGN(games);
        }
    } else if (what == "pgnbytes") {
        std::vector<std::string> valid = {
            "[Event \"x\"]\n[FEN \"r3k2r/1P4P1/8/8/8/8/1p4p1/R3K2R w KQkq - 0 1\"]\n\n1. bxa8=Q+ {c} Kd7 $1 (1... Kf7 2. O-O+ {d}) 2. O-O-O+ *\n",
            "[Event \"y\"]\n\n1. e4 e5 2. Nf3 (2. f4 exf4 (2... d5 $6) 3. Nf3) 2... Nc6 3. Bb5 a6 ; rest of line\n% escaped\n4. Ba4 1/2-1/2\n",
            "1. d4 d5 2. c4 e6 3. Nc3 Nf6 4. Bg5 Be7 5. e3 O-O 6. Nf3 Nbd7 0-1"};
        unsigned long long id = 0;
        for (auto& v : valid) for (size_t off = 0; off < v.size(); off++) for (int val = 0; val < 256; val++) {
            if (!W->mine(id++)) continue;
            std::string s = v; s[off] = (char)val; tryPGN(s);
        }
        if (W->idx == 0) for (auto& v : valid) for (size_t n = 0; n <= v.size(); n++) tryPGN(v.substr(0, n));
    }
    alarm(0);
    R.count("nontrivial", R.counters["accepted"]);
}

int main(int argc, char** argv) {
    Worker w(argc, argv); W = &w;
    br::initTexel();
    std::string part = w.args.get("part", "ulike");
    R.part = part;
    bool thorough = w.args.get("tier", "quick") == "thorough";
    uni::Part P{w.idx, w.n};
    auto visit = [&](const orc::Board& b, unsigned long long) { checkMoves(b); };
    if (w.args.has("replay")) {
        std::string txt = readFile(w.args.get("replay"));
        std::string fen = jsonGetStr(txt, "fen"), pgn = jsonGetStr(txt, "pgn"), cs = jsonGetStr(txt, "case");
        if (!cs.empty()) { if (cs.rfind("FEN:", 0) == 0) fen = cs.substr(4); else if (cs.rfind("PGN:", 0) == 0) pgn = cs.substr(4); else fen = cs; }
        if (!pgn.empty()) tryPGN(pgn);
        if (!fen.empty()) { orc::Board b; if (part.rfind("g-", 0) != 0 && orc::fromFEN(fen, b) && uni::validPlacement(b)) checkMoves(b); else tryFEN(fen); }
        w.finish(R); return 0;
    }
    if (part == "ulike") ulike(P, false, (int)w.args.getInt("kstep", 3));
    else if (part == "ulikepin") ulike(P, true, (int)w.args.getInt("kstep", 9));
    else if (part == "u3") uni::U3((int)w.args.getInt("wk", 1), P, visit);
    else if (part == "uep") uni::UEP(P, visit, (int)w.args.getInt("sliders", 1), (int)w.args.getInt("files", 255), (int)w.args.getInt("sides", 3));
    else if (part == "ucastle") uni::UCASTLE(P, visit, false);
    else if (part == "perft") {
        auto seeds = uni::readSeeds(w.args.get("seeds", "corpus/seeds.fen"));
        uni::UPERFT(seeds, (int)w.args.getInt("depth", 3), P, [&](const orc::Board& b, unsigned long long, int) { checkMoves(b); }, 2, [&]() { return w.dl.hit(); }); if (w.dl.hit()) R.exhaustive = false;
    }
    else if (part == "pgntrees") pgnTrees((int)w.args.getInt("nodes", 5));
    else if (part.rfind("g-", 0) == 0) garbage(part.substr(2), thorough);
    else return 2;
    w.finish(R);
    return 0;
}

// Finite position universes (DESIGN.md 3.7), built with the independent oracle only.
// Every enumerator calls f(board, index) for each *valid* position owned by the worker
// (valid: one king each, no pawn on rank 1/8, side not to move not in check).
#pragma once
#include "chess.hpp"
#include <functional>
#include <fstream>

namespace uni {
using orc::Board;

struct Part { int idx = 0, n = 1; bool mine(unsigned long long i) const { return (int)(i % (unsigned long long)n) == idx; } };

inline bool validPlacement(const Board& b) {
    int wk = -1, bk = -1;
    for (int s = 0; s < 64; s++) {
        int p = b.sq[s];
        if (p == orc::WK) { if (wk >= 0) return false; wk = s; }
        if (p == orc::BK) { if (bk >= 0) return false; bk = s; }
        if ((p == orc::WP || p == orc::BP) && (orc::Y(s) == 0 || orc::Y(s) == 7)) return false;
    }
    if (wk < 0 || bk < 0) return false;
    return !orc::inCheck(b, !b.wtm);
}

typedef std::function<void(const Board&, unsigned long long)> PosFn;

/** White king squares: 0 = all 64, 1 = files a-d, 2 = a1-d1-d4 triangle. */
inline bool wkAllowed(int s, int mode) {
    if (mode == 0) return true;
    int x = orc::X(s), y = orc::Y(s);
    if (mode == 1) return x < 4;
    return x < 4 && y <= x;
}

/** Generic: place pieces[0..n) (coloured codes, pieces[0] = WK, pieces[1] = BK) on all distinct squares, both stm. */
inline void placeAll(const std::vector<int>& pieces, int wkMode, const Part& part, const PosFn& f,
                     unsigned long long& counter, const std::function<bool()>& stop = nullptr) {
    int n = (int)pieces.size();
    std::vector<int> sqs(n, 0);
    // odometer over squares
    std::function<void(int, Board&)> rec = [&](int i, Board& b) {
        if (i == n) {
            for (int stm = 0; stm < 2; stm++) {
                unsigned long long id = counter++;
                if (!part.mine(id)) continue;
                b.wtm = stm == 0;
                if (validPlacement(b)) f(b, id);
            }
            return;
        }
        for (int s = 0; s < 64; s++) {
            if (b.sq[s]) continue;
            if (i == 0 && !wkAllowed(s, wkMode)) continue;
            int p = pieces[i];
            if ((p == orc::WP || p == orc::BP) && (s < 8 || s >= 56)) continue;
            // identical pieces: enforce ascending squares to avoid duplicates
            if (i > 0 && pieces[i-1] == p && s < sqs[i-1]) continue;
            b.sq[s] = (signed char)p; sqs[i] = s;
            rec(i + 1, b);
            b.sq[s] = 0;
            if (stop && i <= 1 && stop()) return;
        }
    };
    Board b;
    rec(0, b);
}

/** U-3: K+X v K, X any non-king piece of either colour. */
inline void U3(int wkMode, const Part& part, const PosFn& f, int typeMask = 0x7c /* bit t = piece type t (2 Q .. 6 P) */) {
    unsigned long long c = 0;
    for (int x = 2; x <= 6; x++) if (typeMask & (1 << x))
        for (int col = 0; col < 2; col++)
            placeAll({orc::WK, orc::BK, orc::mk(col == 0, x)}, wkMode, part, f, c);
}

/** List of 4-men classes: (X,Y) both white, both black, or one each. */
inline std::vector<std::vector<int>> u4Classes(bool pawnless) {
    std::vector<std::vector<int>> out;
    int hi = pawnless ? 5 : 6;
    for (int x = 2; x <= hi; x++) for (int y = x; y <= hi; y++) {
        out.push_back({orc::WK, orc::BK, orc::mk(true, x), orc::mk(true, y)});
        out.push_back({orc::WK, orc::BK, orc::mk(false, x), orc::mk(false, y)});
    }
    for (int x = 2; x <= hi; x++) for (int y = 2; y <= hi; y++)
        out.push_back({orc::WK, orc::BK, orc::mk(true, x), orc::mk(false, y)});
    return out;
}

inline std::string className(const std::vector<int>& pcs) {
    std::string w = "K", b = "K";
    for (size_t i = 2; i < pcs.size(); i++) (orc::isWhiteP(pcs[i]) ? w : b) += orc::PCH[orc::typeOf(pcs[i])];
    return w + "v" + b;
}

/** U-EP: wK, wP on rank 5, bP adjacent having just double-pushed (ep set), one black slider, bK; and colour mirror. */
inline void UEP(const Part& part, const PosFn& f, int sliderMask = 7 /*Q|R|B*/, int fileMask = 255, int sideMask = 3) {
    unsigned long long c = 0;
    static const int sliders[3] = {orc::BQ, orc::BR, orc::BB};
    for (int mirror = 0; mirror < 2; mirror++)
    for (int px = 0; px < 8; px++) for (int side = -1; side <= 1; side += 2) {
        if (!(fileMask & (1 << px)) || !(sideMask & (side < 0 ? 1 : 2))) continue;
        int bx = px + side; if (bx < 0 || bx > 7) continue;
        for (int si = 0; si < 3; si++) { if (!(sliderMask & (1 << si))) continue;
        for (int wk = 0; wk < 64; wk++) for (int bk = 0; bk < 64; bk++) for (int sl = 0; sl < 64; sl++) {
            unsigned long long id = c++;
            if (!part.mine(id)) continue;
            Board b;
            int wp = 4*8 + px, bp = 4*8 + bx, eps = 5*8 + bx;
            if (wk == wp || wk == bp || wk == eps || wk == eps + 8) continue; // path of the double push must have been free
            if (bk == wp || bk == bp || bk == eps || bk == eps + 8 || bk == wk) continue;
            if (sl == wp || sl == bp || sl == eps || sl == eps + 8 || sl == wk || sl == bk) continue;
            b.sq[wp] = orc::WP; b.sq[bp] = orc::BP; b.sq[wk] = orc::WK; b.sq[bk] = orc::BK; b.sq[sl] = (signed char)sliders[si];
            b.ep = eps; b.wtm = true;
            if (mirror) { // colour swap: flip ranks, swap colours
                Board m;
                for (int s = 0; s < 64; s++) { int p = b.sq[s]; if (p) m.sq[s ^ 56] = (signed char)(p > 6 ? p - 6 : p + 6); }
                m.ep = b.ep ^ 56; m.wtm = false; b = m;
            }
            if (validPlacement(b)) f(b, id);
        }}
    }
}

/** U-CASTLE: kings and rooks at home, every subset of rights, one enemy piece anywhere, one friendly blocker anywhere/none. */
inline void UCASTLE(const Part& part, const PosFn& f, bool blockersEverywhere) {
    unsigned long long c = 0;
    for (int mirror = 0; mirror < 2; mirror++)
    for (int rights = 0; rights < 16; rights++)
    for (int et = 2; et <= 6; et++)
    for (int es = 0; es < 64; es++)
    for (int bs = -1; bs < 64; bs++) {
        if (!blockersEverywhere && bs >= 8) break;
        unsigned long long id = c++;
        if (!part.mine(id)) continue;
        Board b;
        b.sq[4] = orc::WK; b.sq[0] = orc::WR; b.sq[7] = orc::WR; b.sq[60] = orc::BK; b.sq[56] = orc::BR; b.sq[63] = orc::BR;
        if (b.sq[es]) continue;
        if (et == 6 && (es < 8 || es >= 56)) continue;
        b.sq[es] = (signed char)orc::mk(false, et);
        if (bs >= 0) { if (b.sq[bs]) continue; b.sq[bs] = orc::WN; }
        b.castle = rights; b.wtm = true;
        if (mirror) {
            Board m;
            for (int s = 0; s < 64; s++) { int p = b.sq[s]; if (p) m.sq[s ^ 56] = (signed char)(p > 6 ? p - 6 : p + 6); }
            m.castle = ((rights & 3) << 2) | ((rights >> 2) & 3); m.wtm = false; b = m;
        }
        if (validPlacement(b)) f(b, id);
    }
}

/** U-KRAID: one side has king and both rooks at home with every subset of its castling rights; the OTHER side is to move with its king on
 *  every square (next to the corner rooks in particular) and optionally one more piece of each type on every square: moves that capture or
 *  attack an unmoved corner rook while its castling right is still held. */
inline void UKRAID(const Part& part, const PosFn& f) {
    unsigned long long c = 0;
    for (int mirror = 0; mirror < 2; mirror++)
    for (int castlerToMove = 0; castlerToMove < 2; castlerToMove++)   // 1: the side with the rights moves (castling that gives check along its own back rank)
    for (int rights = 0; rights < 4; rights++)
    for (int ks = 0; ks < 64; ks++)
    for (int et = 1; et <= 5; et++)          // 1 = no extra piece, 2..5 = Q R B N
    for (int es = 0; es < 64; es++) {
        if (et == 1 && es > 0) break;
        unsigned long long id = c++;
        if (!part.mine(id)) continue;
        Board b;
        b.sq[60] = orc::BK; b.sq[56] = orc::BR; b.sq[63] = orc::BR;
        if (b.sq[ks]) continue;
        b.sq[ks] = orc::WK;
        if (et > 1) { if (b.sq[es]) continue; b.sq[es] = (signed char)orc::mk(true, et); }
        b.castle = rights << 2; b.wtm = castlerToMove == 0;      // bit 2 = black long (a8), bit 3 = black short (h8)
        if (mirror) {
            Board m;
            for (int s = 0; s < 64; s++) { int p = b.sq[s]; if (p) m.sq[s ^ 56] = (signed char)(p > 6 ? p - 6 : p + 6); }
            m.castle = ((b.castle & 3) << 2) | ((b.castle >> 2) & 3); m.wtm = !b.wtm; b = m;
        }
        if (validPlacement(b)) f(b, id);
    }
}

/** Seed list (one FEN per line, '#' comments). */
inline std::vector<Board> readSeeds(const std::string& path) {
    std::vector<Board> out;
    std::ifstream in(path);
    std::string line;
    while (std::getline(in, line)) {
        if (line.empty() || line[0] == '#') continue;
        Board b;
        if (!orc::fromFEN(line, b) || !validPlacement(b)) { fprintf(stderr, "invalid seed FEN: %s\n", line.c_str()); exit(2); }
        out.push_back(b);
    }
    return out;
}

/** U-PERFT(S,d): every node of the legal move tree of depth d under each seed. f(board, id, depth). */
inline void UPERFT(const std::vector<Board>& seeds, int depth, const Part& part,
                   const std::function<void(const Board&, unsigned long long, int)>& f, int splitDepth = 2,
                   const std::function<bool()>& stop = std::function<bool()>()) {
    unsigned long long c = 0, visited = 0; bool stopped = false;
    std::function<void(const Board&, int, bool)> rec = [&](const Board& b, int d, bool owned) {
        if (stopped) return;
        if (stop && (++visited & 31) == 0 && stop()) { stopped = true; return; }   // deadline: the caller reports the tree as not exhausted
        bool own = owned;
        if (d <= splitDepth) { unsigned long long id = c++; own = part.mine(id); if (own) f(b, id, d); if (d < splitDepth) own = false; }
        else if (owned) f(b, 0, d);
        if (d == depth) return;
        if (d >= splitDepth && !own) return;
        for (const orc::Mv& m : orc::legalMoves(b)) rec(orc::apply(b, m), d + 1, own);
    };
    for (const Board& s : seeds) rec(s, 0, false);
}

} // namespace uni

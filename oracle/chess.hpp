// Independent chess rules oracle (DESIGN.md 3.4). Header-only, shares no code or tables with texel.
// Mailbox board, ray walking, legality by make-move + king-attack test.
// Encodings (numbering only, chosen equal to texel's for cheap conversion):
//   squares a1=0,b1=1,...,h8=63; pieces 0 empty, 1..6 white K Q R B N P, 7..12 black K Q R B N P;
//   castle mask bit0 = white long (a1), bit1 = white short (h1), bit2 = black long, bit3 = black short.
#pragma once
#include <string>
#include <vector>
#include <cstdlib>
#include <cstring>
#include <cstdint>
#include <sstream>
#include <algorithm>

namespace orc {

enum { EMPTY=0, WK=1, WQ=2, WR=3, WB=4, WN=5, WP=6, BK=7, BQ=8, BR=9, BB=10, BN=11, BP=12 };

inline bool isWhiteP(int p) { return p >= 1 && p <= 6; }
inline bool isBlackP(int p) { return p >= 7; }
inline int typeOf(int p) { return p == 0 ? 0 : (p > 6 ? p - 6 : p); }  // 1 K 2 Q 3 R 4 B 5 N 6 P
inline int mk(bool white, int type) { return white ? type : type + 6; }

struct Mv {
    int from = 0, to = 0, promo = 0; // promo: piece code (coloured) or 0
    bool operator==(const Mv& o) const { return from == o.from && to == o.to && promo == o.promo; }
    bool operator<(const Mv& o) const {
        if (from != o.from) return from < o.from;
        if (to != o.to) return to < o.to;
        return promo < o.promo;
    }
    int code() const { return from | (to << 6) | (promo << 12); }
};

struct Board {
    signed char sq[64];
    bool wtm = true;
    int castle = 0;
    int ep = -1;       // en-passant target square as given (may be "illegal to use")
    int hmc = 0;
    int fullMove = 1;

    Board() { memset(sq, 0, sizeof(sq)); }

    int kingSq(bool white) const {
        int k = white ? WK : BK;
        for (int i = 0; i < 64; i++) if (sq[i] == k) return i;
        return -1;
    }
    int count(int piece) const { int n = 0; for (int i = 0; i < 64; i++) n += sq[i] == piece; return n; }
    int nMen() const { int n = 0; for (int i = 0; i < 64; i++) n += sq[i] != 0; return n; }
};

inline int X(int s) { return s & 7; }
inline int Y(int s) { return s >> 3; }
inline bool onBoard(int x, int y) { return x >= 0 && x < 8 && y >= 0 && y < 8; }

static const int KN_DX[8] = {1,2,2,1,-1,-2,-2,-1};
static const int KN_DY[8] = {2,1,-1,-2,-2,-1,1,2};
static const int K_DX[8] = {1,1,0,-1,-1,-1,0,1};
static const int K_DY[8] = {0,1,1,1,0,-1,-1,-1};

/** Is square s attacked by a piece of colour byWhite? */
inline bool attacked(const Board& b, int s, bool byWhite) {
    int x = X(s), y = Y(s);
    // pawns
    int pdy = byWhite ? -1 : 1; // attacker pawn is one rank "behind" relative to its direction
    for (int dx = -1; dx <= 1; dx += 2) {
        int px = x + dx, py = y + pdy;
        if (onBoard(px, py) && b.sq[py*8+px] == (byWhite ? WP : BP)) return true;
    }
    for (int i = 0; i < 8; i++) {
        int nx = x + KN_DX[i], ny = y + KN_DY[i];
        if (onBoard(nx, ny) && b.sq[ny*8+nx] == (byWhite ? WN : BN)) return true;
        nx = x + K_DX[i]; ny = y + K_DY[i];
        if (onBoard(nx, ny) && b.sq[ny*8+nx] == (byWhite ? WK : BK)) return true;
    }
    for (int d = 0; d < 8; d++) {
        int dx = K_DX[d], dy = K_DY[d];
        bool diag = dx != 0 && dy != 0;
        int nx = x + dx, ny = y + dy;
        while (onBoard(nx, ny)) {
            int p = b.sq[ny*8+nx];
            if (p) {
                if (isWhiteP(p) == byWhite) {
                    int t = typeOf(p);
                    if (t == 2 || (diag && t == 4) || (!diag && t == 3)) return true;
                }
                break;
            }
            nx += dx; ny += dy;
        }
    }
    return false;
}

inline bool inCheck(const Board& b, bool white) {
    int k = b.kingSq(white);
    return k >= 0 && attacked(b, k, !white);
}

/** Apply a pseudo-legal move; returns the resulting board (ep square set after every double push). */
inline Board apply(const Board& b, const Mv& m) {
    Board n = b;
    int p = b.sq[m.from];
    int cap = b.sq[m.to];
    bool white = b.wtm;
    n.sq[m.from] = 0;
    n.sq[m.to] = m.promo ? m.promo : p;
    n.ep = -1;
    int t = typeOf(p);
    bool irreversible = cap != 0 || t == 6;
    if (t == 6) {
        if (m.to == b.ep && cap == 0 && X(m.from) != X(m.to)) { // en passant
            n.sq[m.to + (white ? -8 : 8)] = 0;
        }
        if (std::abs(m.to - m.from) == 16) n.ep = (m.from + m.to) / 2;
    }
    if (t == 1 && std::abs(X(m.to) - X(m.from)) == 2) { // castling
        int y = Y(m.from);
        if (X(m.to) == 6) { n.sq[y*8+5] = n.sq[y*8+7]; n.sq[y*8+7] = 0; }
        else { n.sq[y*8+3] = n.sq[y*8+0]; n.sq[y*8+0] = 0; }
    }
    // castling rights
    auto clr = [&](int s) {
        if (s == 0) n.castle &= ~1; if (s == 7) n.castle &= ~2;
        if (s == 56) n.castle &= ~4; if (s == 63) n.castle &= ~8;
        if (s == 4) n.castle &= ~3; if (s == 60) n.castle &= ~12;
    };
    clr(m.from); clr(m.to);
    n.hmc = irreversible ? 0 : b.hmc + 1;
    if (!white) n.fullMove++;
    n.wtm = !white;
    return n;
}

inline void addPawnMoves(std::vector<Mv>& out, int from, int to, bool white) {
    int y = Y(to);
    if (y == 7 || y == 0) {
        for (int t = 2; t <= 5; t++) out.push_back(Mv{from, to, mk(white, t)});
    } else out.push_back(Mv{from, to, 0});
}

/** All pseudo-legal moves (castling included only when fully legal w.r.t. attacked squares). */
inline std::vector<Mv> pseudoLegal(const Board& b, int onlyFrom = -1) {
    std::vector<Mv> out;
    bool w = b.wtm;
    for (int s = 0; s < 64; s++) {
        if (onlyFrom >= 0 && s != onlyFrom) continue;
        int p = b.sq[s];
        if (!p || isWhiteP(p) != w) continue;
        int x = X(s), y = Y(s), t = typeOf(p);
        if (t == 6) {
            int dy = w ? 1 : -1;
            int ny = y + dy;
            if (ny < 0 || ny > 7) continue;
            if (b.sq[ny*8+x] == 0) {
                addPawnMoves(out, s, ny*8+x, w);
                if (y == (w ? 1 : 6) && b.sq[(ny+dy)*8+x] == 0) out.push_back(Mv{s, (ny+dy)*8+x, 0});
            }
            for (int dx = -1; dx <= 1; dx += 2) {
                int nx = x + dx;
                if (nx < 0 || nx > 7) continue;
                int ts = ny*8+nx;
                int c = b.sq[ts];
                if (c && isWhiteP(c) != w) addPawnMoves(out, s, ts, w);
                else if (!c && ts == b.ep && b.ep >= 0) {
                    // en passant: the captured pawn must be there and the ep square on the right rank
                    int cs = ts + (w ? -8 : 8);
                    if (Y(ts) == (w ? 5 : 2) && b.sq[cs] == (w ? BP : WP)) out.push_back(Mv{s, ts, 0});
                }
            }
        } else if (t == 5 || t == 1) {
            for (int i = 0; i < 8; i++) {
                int nx = x + (t == 5 ? KN_DX[i] : K_DX[i]), ny = y + (t == 5 ? KN_DY[i] : K_DY[i]);
                if (!onBoard(nx, ny)) continue;
                int c = b.sq[ny*8+nx];
                if (c && isWhiteP(c) == w) continue;
                out.push_back(Mv{s, ny*8+nx, 0});
            }
            if (t == 1) {
                int home = w ? 4 : 60;
                if (s == home && !attacked(b, s, !w)) {
                    int rk = w ? WR : BR;
                    int shortBit = w ? 2 : 8, longBit = w ? 1 : 4;
                    if ((b.castle & shortBit) && b.sq[home+3] == rk && !b.sq[home+1] && !b.sq[home+2]
                        && !attacked(b, home+1, !w) && !attacked(b, home+2, !w))
                        out.push_back(Mv{s, home+2, 0});
                    if ((b.castle & longBit) && b.sq[home-4] == rk && !b.sq[home-1] && !b.sq[home-2] && !b.sq[home-3]
                        && !attacked(b, home-1, !w) && !attacked(b, home-2, !w))
                        out.push_back(Mv{s, home-2, 0});
                }
            }
        } else {
            for (int d = 0; d < 8; d++) {
                int dx = K_DX[d], dy = K_DY[d];
                bool diag = dx != 0 && dy != 0;
                if (t == 3 && diag) continue;
                if (t == 4 && !diag) continue;
                int nx = x + dx, ny = y + dy;
                while (onBoard(nx, ny)) {
                    int c = b.sq[ny*8+nx];
                    if (c && isWhiteP(c) == w) break;
                    out.push_back(Mv{s, ny*8+nx, 0});
                    if (c) break;
                    nx += dx; ny += dy;
                }
            }
        }
    }
    return out;
}

inline bool legalAfter(const Board& b, const Mv& m) {
    Board n = apply(b, m);
    return !inCheck(n, b.wtm);
}

inline std::vector<Mv> legalMoves(const Board& b) {
    std::vector<Mv> out;
    for (const Mv& m : pseudoLegal(b))
        if (legalAfter(b, m)) out.push_back(m);
    return out;
}

inline bool isCapture(const Board& b, const Mv& m) {
    if (b.sq[m.to]) return true;
    return typeOf(b.sq[m.from]) == 6 && X(m.from) != X(m.to);
}

/** Is a legal en-passant capture available for the side to move? */
inline bool legalEpAvailable(const Board& b) {
    if (b.ep < 0) return false;
    for (const Mv& m : pseudoLegal(b))
        if (m.to == b.ep && typeOf(b.sq[m.from]) == 6 && X(m.from) != X(m.to) && legalAfter(b, m))
            return true;
    return false;
}

/** FEN-normalised copy: ep square kept only if a legal ep capture exists. */
inline Board normalised(const Board& b) {
    Board n = b;
    if (!legalEpAvailable(b)) n.ep = -1;
    return n;
}

/** FIDE repetition key: placement, side to move, castling rights, *legally possible* ep capture. */
inline std::string repKey(const Board& b) {
    std::string k(67, ' ');
    for (int i = 0; i < 64; i++) k[i] = 'a' + b.sq[i];
    k[64] = b.wtm ? 'w' : 'b';
    k[65] = 'A' + b.castle;
    k[66] = legalEpAvailable(b) ? ('a' + X(b.ep)) : '-';
    return k;
}

/** Full-state key including raw ep and counters (for exact comparisons). */
inline std::string stateKey(const Board& b, bool withCounters) {
    std::string k(67, ' ');
    for (int i = 0; i < 64; i++) k[i] = 'a' + b.sq[i];
    k[64] = b.wtm ? 'w' : 'b';
    k[65] = 'A' + b.castle;
    k[66] = b.ep >= 0 ? ('a' + X(b.ep)) : '-';
    if (withCounters) { k += std::to_string(b.hmc); k += ','; k += std::to_string(b.fullMove); }
    return k;
}

static const char PCH[] = ".KQRBNPkqrbnp";

inline std::string sqName(int s) { std::string r; r += (char)('a' + X(s)); r += (char)('1' + Y(s)); return r; }

inline std::string toFEN(const Board& b) {
    std::string s;
    for (int y = 7; y >= 0; y--) {
        int e = 0;
        for (int x = 0; x < 8; x++) {
            int p = b.sq[y*8+x];
            if (!p) { e++; continue; }
            if (e) { s += (char)('0' + e); e = 0; }
            s += PCH[p];
        }
        if (e) s += (char)('0' + e);
        if (y) s += '/';
    }
    s += b.wtm ? " w " : " b ";
    std::string c;
    if (b.castle & 2) c += 'K'; if (b.castle & 1) c += 'Q'; if (b.castle & 8) c += 'k'; if (b.castle & 4) c += 'q';
    s += c.empty() ? "-" : c;
    s += ' ';
    s += b.ep >= 0 ? sqName(b.ep) : "-";
    s += ' '; s += std::to_string(b.hmc); s += ' '; s += std::to_string(b.fullMove);
    return s;
}

/** Strict FEN reader for oracle-produced strings; returns false on malformed input. */
inline bool fromFEN(const std::string& fen, Board& b) {
    b = Board();
    std::istringstream is(fen);
    std::string pl, stm, cs, ep; int hmc = 0, fm = 1;
    if (!(is >> pl >> stm)) return false;
    if (!(is >> cs)) cs = "-";
    if (!(is >> ep)) ep = "-";
    if (!(is >> hmc)) hmc = 0;
    if (!(is >> fm)) fm = 1;
    int x = 0, y = 7;
    for (char c : pl) {
        if (c == '/') { y--; x = 0; if (y < 0) return false; continue; }
        if (c >= '1' && c <= '8') { x += c - '0'; continue; }
        const char* p = strchr(PCH + 1, c);
        if (!p || x > 7) return false;
        b.sq[y*8+x] = (signed char)(p - PCH);
        x++;
    }
    b.wtm = stm == "w";
    for (char c : cs) { if (c == 'K') b.castle |= 2; if (c == 'Q') b.castle |= 1; if (c == 'k') b.castle |= 8; if (c == 'q') b.castle |= 4; }
    if (ep != "-" && ep.size() == 2) b.ep = (ep[0] - 'a') + 8 * (ep[1] - '1');
    b.hmc = hmc; b.fullMove = fm;
    return true;
}

inline Board startPos() {
    Board b; fromFEN("rnbqkbnr/pppppppp/8/8/8/8/PPPPPPPP/RNBQKBNR w KQkq - 0 1", b); return b;
}

inline std::string uci(const Mv& m) {
    std::string s = sqName(m.from) + sqName(m.to);
    if (m.promo) s += (char)tolower(PCH[typeOf(m.promo)]);
    return s;
}

inline bool isMate(const Board& b) { return inCheck(b, b.wtm) && legalMoves(b).empty(); }
inline bool isStalemate(const Board& b) { return !inCheck(b, b.wtm) && legalMoves(b).empty(); }

/** SAN per FIDE (file, then rank, then both for disambiguation among *legal* moves; +/# suffix). */
inline std::string san(const Board& b, const Mv& m, bool longForm = false) {
    int p = b.sq[m.from], t = typeOf(p);
    std::string s;
    if (t == 1 && std::abs(X(m.to) - X(m.from)) == 2) {
        s = X(m.to) == 6 ? "O-O" : "O-O-O";
    } else {
        if (t != 6) s += PCH[t];
        bool cap = isCapture(b, m);
        if (longForm) {
            s += sqName(m.from);
            s += cap ? 'x' : '-';
        } else {
            if (t == 6) { if (cap) s += (char)('a' + X(m.from)); }
            else {
                int nSame = 0, nFile = 0, nRank = 0;
                for (const Mv& o : legalMoves(b)) {
                    if (o.to != m.to || o.from == m.from || b.sq[o.from] != p) continue;
                    nSame++;
                    if (X(o.from) == X(m.from)) nFile++;
                    if (Y(o.from) == Y(m.from)) nRank++;
                }
                if (nSame) {
                    if (nFile == 0) s += (char)('a' + X(m.from));
                    else if (nRank == 0) s += (char)('1' + Y(m.from));
                    else s += sqName(m.from);
                }
            }
            if (cap) s += 'x';
        }
        s += sqName(m.to);
        if (m.promo) s += PCH[typeOf(m.promo)];
    }
    Board n = apply(b, m);
    if (inCheck(n, n.wtm)) s += legalMoves(n).empty() ? '#' : '+';
    return s;
}

/** perft for self test. */
inline uint64_t perft(const Board& b, int d) {
    if (d == 0) return 1;
    uint64_t n = 0;
    for (const Mv& m : legalMoves(b)) n += d == 1 ? 1 : perft(apply(b, m), d - 1);
    return n;
}

/** AND/OR solver: can side to move force mate within n own moves? (no 50-move/repetition). */
inline bool canMateIn(const Board& b, int n);
inline bool isMatedWithin(const Board& b, int n) { // side to move is mated in <= n opponent moves whatever it does
    std::vector<Mv> lm = legalMoves(b);
    if (lm.empty()) return inCheck(b, b.wtm);
    if (n == 0) return false;
    for (const Mv& m : lm) if (!canMateIn(apply(b, m), n)) return false;
    return true;
}
inline bool canMateIn(const Board& b, int n) {
    if (n <= 0) return false;
    for (const Mv& m : legalMoves(b)) if (isMatedWithin(apply(b, m), n - 1)) return true;
    return false;
}

/** Insufficient material in the narrow sense used for "dead position" claims: K v K, K+minor v K,
 *  K+bishops (all on one colour, either side) v K+bishops of that colour. */
inline bool deadMaterial(const Board& b) {
    int nB[2] = {0,0}; bool light = false, dark = false; int nN = 0;
    for (int s = 0; s < 64; s++) {
        int t = typeOf(b.sq[s]);
        if (t == 0 || t == 1) continue;
        if (t == 2 || t == 3 || t == 6) return false;
        if (t == 5) nN++;
        if (t == 4) { nB[isWhiteP(b.sq[s]) ? 0 : 1]++; if ((X(s) + Y(s)) & 1) light = true; else dark = true; }
    }
    if (nN == 0) return !(light && dark);
    return nN == 1 && nB[0] + nB[1] == 0;
}

} // namespace orc

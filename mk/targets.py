"""Harness / tool executables. name -> dict(flavours, src, net, cxxflags, ldflags)."""
TARGETS = {
    "gennet": dict(flavours=["fast"], src=["tools/gennet.cpp"], net="stub"),
    "c01_movegen": dict(flavours=["seq", "fast"], src=["harness/c01_movegen.cpp"], net="stub"),
    "c02_position": dict(flavours=["seq", "fast"], src=["harness/c02_position.cpp"], net="stub"),
    "c15_revmovegen": dict(flavours=["seq", "fast"], src=["harness/c15_revmovegen.cpp"], net="stub"),
    "c20_csp": dict(flavours=["seq", "fast"], src=["harness/c20_csp.cpp"], net="stub"),
    "c17_text": dict(flavours=["seq", "fast"], src=["harness/c17_text.cpp"], net="stub"),
    "c18_book": dict(flavours=["seq"], src=["harness/c18_book.cpp"], net="stub", ldflags="-Wl,--wrap=_ZN6Random7nextIntEi"),
    "c19_bookbuild": dict(flavours=["seq", "fast"], src=["harness/c19_bookbuild.cpp"], net="stub"),
    "c12_tbgen": dict(flavours=["seq", "fast"], src=["harness/c12_tbgen.cpp"], net="stub"),
    "c13_tbsearch": dict(flavours=["seq", "fast"], src=["harness/c13_tbsearch.cpp"], net=1),
    "c04_mates": dict(flavours=["seq", "fast"], src=["harness/c04_mates.cpp"], net=1),
    "c04_mates_net0": dict(flavours=["fast"], src=["harness/c04_mates.cpp"], net=0),
    "c03_results": dict(flavours=["seq", "fast"], src=["harness/c03_results.cpp"], net=1),
    "c14_clearhash": dict(flavours=["seq", "fast"], src=["harness/c14_clearhash.cpp"], net=1),
    "c11_draws": dict(flavours=["seq", "fast"], src=["harness/c11_draws.cpp"], net=1),
    "c08_tt": dict(flavours=["sched", "sched-asan"], src=["harness/c08_tt.cpp"], net="stub"),
}

"""Build flavours: how /repo sources are compiled for the checks (DESIGN.md 3.2)."""
import glob, os

REPO = os.environ.get("VERIF_REPO", "/repo")
VERIF = os.path.dirname(os.path.dirname(os.path.abspath(__file__)))
BUILD = os.environ.get("VERIF_BUILD", os.path.join(VERIF, "build"))

INC_DIRS = [
    "lib/texellib", "lib/texellib/book", "lib/texellib/debug", "lib/texellib/hw",
    "lib/texellib/nn", "lib/texellib/tb", "lib/texellib/util",
    "lib/texellib/tb/gtb/sysport", "lib/texellib/tb/gtb/compression",
    "lib/texellib/tb/gtb/compression/lzma", "lib/texellib/tb/syzygy",
    "lib/texelutillib", "lib/texelutillib/pg", "app/texel",
]

# Optimisation level -O3 like the repository's own CMake build (CMakeLists.txt replaces -O2 by -O3). With g++ 12 at -O2 the SLP
# vectoriser drops the inlined NNEvaluator::computeL1Out() stores from NNEvaluator::eval() (stale l1OutClipped is used); every
# harness that evaluates positions runs a poison self-test at start-up (harness/evalsanity.hpp) and exits 2 if the flavour is affected.
COMMON = "-DHAS_RT -DTEXEL_VERIF -Wno-psabi -fno-stack-protector -w"

# name -> dict(cxx, cc, flags, ldflags, shim)
FLAVOURS = {
    "seq":  dict(cxx="g++", cc="gcc",
                 flags="-O3 -g1 -fsanitize=address,undefined -fno-sanitize-recover=undefined -fno-omit-frame-pointer",
                 ld="-fsanitize=address,undefined"),
    "fast": dict(cxx="g++", cc="gcc", flags="-O3 -g1", ld=""),
    "sched": dict(cxx="g++", cc="gcc", flags="-O3 -g1", ld="", shim=True),
    "sched-asan": dict(cxx="g++", cc="gcc", flags="-O3 -g1 -fsanitize=address -fno-omit-frame-pointer",
                  ld="-fsanitize=address", shim=True),
    # The network evaluation kernels touch only data owned by the evaluating thread (accumulator stack, scratch vectors) and the
    # read-only weights; instrumenting their byte-wise loops makes a search ~100 times slower under ThreadSanitizer, which limited the
    # race check to toy searches. They are compiled without instrumentation in the TSan flavours (accesses made there are invisible to
    # the detector: stated as an assumption of C09); everything else, including Evaluate and the evaluation hash tables, is instrumented.
    "sched-tsan": dict(cxx="g++", cc="gcc", flags="-O3 -g1 -fsanitize=thread", ld="-fsanitize=thread", shim=True,
                       fileflags={"lib/texellib/nn/nneval.cpp": "-fno-sanitize=thread"}),
    "free-tsan": dict(cxx="g++", cc="gcc", flags="-O3 -g1 -fsanitize=thread", ld="-fsanitize=thread",
                      fileflags={"lib/texellib/nn/nneval.cpp": "-fno-sanitize=thread"}),
    "simd-generic": dict(cxx="g++", cc="gcc", flags="-O3", ld=""),
    "simd-ssse3": dict(cxx="g++", cc="gcc", flags="-O3 -mssse3 -DUSE_SSSE3", ld=""),
    "simd-avx2": dict(cxx="g++", cc="gcc", flags="-O3 -mssse3 -mavx2 -DUSE_SSSE3 -DUSE_AVX2", ld=""),
    "simd-avx512": dict(cxx="g++", cc="gcc",
                        flags="-O3 -mssse3 -mavx2 -mavx512f -mavx512bw -mavx512vnni -DUSE_SSSE3 -DUSE_AVX2 -DUSE_AVX512", ld=""),
}

def repo_sources():
    """(relative path) list of all library + app/texel sources except main and nndata."""
    out = []
    for root in ("lib/texellib", "lib/texelutillib"):
        for ext in ("cpp", "c"):
            out += glob.glob(os.path.join(REPO, root, "**", "*." + ext), recursive=True)
    out = [os.path.relpath(p, REPO) for p in out]
    out = [p for p in out if not p.endswith("nn/incbin.c")]
    for f in ("enginecontrol.cpp", "uciprotocol.cpp", "tuigame.cpp"):
        out.append(os.path.join("app/texel", f))
    return sorted(out)

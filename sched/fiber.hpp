// Fiber scheduler for small lock-free harnesses (C08 slot interleavings): thread bodies run as ucontext coroutines inside one OS
// thread; every atomic access announced by the shim is a scheduling point. The explorer enumerates ALL sequentially consistent
// interleavings (no preemption bound) and prunes on the full observable state (shared words + per-thread read history).
#pragma once
#include <ucontext.h>
#include <functional>
#include <vector>
#include <string>
#include <unordered_set>
#include <cstdint>
#include <cstring>

namespace fib {

struct Fiber { ucontext_t ctx; std::vector<char> stack; std::function<void()> body; bool done = false; uint64_t readHash = 1469598103934665603ULL; int points = 0; };

struct Sched {
    std::vector<Fiber> fibers;
    ucontext_t mainCtx;
    int current = -1;
    bool active = false;
    static Sched*& inst() { static Sched* s = nullptr; return s; }
};

inline void trampoline(int idx) {
    Sched* s = Sched::inst();
    s->fibers[(size_t)idx].body();
    s->fibers[(size_t)idx].done = true;
    swapcontext(&s->fibers[(size_t)idx].ctx, &s->mainCtx);
}

/** Called (through the atomic shim) before every atomic access of a fiber: yield to the explorer. */
inline void point() {
    Sched* s = Sched::inst();
    if (!s || !s->active || s->current < 0) return;
    int me = s->current;
    s->fibers[(size_t)me].points++;
    s->current = -1;
    swapcontext(&s->fibers[(size_t)me].ctx, &s->mainCtx);
}

/** Record a value read by the current fiber (makes the per-thread local state part of the cache key). */
inline void noteRead(uint64_t v) {
    Sched* s = Sched::inst();
    if (!s || s->current < 0) return;
    uint64_t& h = s->fibers[(size_t)s->current].readHash;
    h ^= v + 0x9E3779B97F4A7C15ULL + (h << 6) + (h >> 2);
}

/** The current fiber declares that its local state is now a function of the shared state alone (e.g. it has just returned from a blocking
 *  wait at the head of its message loop): step counter and read history restart, so that executions reaching the same protocol state by
 *  different histories are merged. Everything the fiber learns afterwards must be announced with noteRead(). */
inline void resetLocal(uint64_t tag = 0) {
    Sched* s = Sched::inst();
    if (!s || s->current < 0) return;
    Fiber& f = s->fibers[(size_t)s->current];
    f.points = 0; f.readHash = 1469598103934665603ULL ^ (tag * 0x9E3779B97F4A7C15ULL);
}

struct Explorer {
    unsigned long long schedules = 0, pruned = 0, states = 0, transitions = 0, maxPoints = 0;
    std::unordered_set<std::string> seen;
    /** setup(): resets shared state and returns the thread bodies; sharedState(): bytes of the shared memory; atEnd(choices): oracle. */
    std::function<std::vector<std::function<void()>>()> setup;
    std::function<std::string()> sharedState;
    std::function<void(const std::vector<int>&)> atEnd;
    size_t maxSchedules = 0; bool capped = false;
    std::function<bool(int)> enabled;                          // optional: fiber i can run now (blocking waits); default: every unfinished fiber
    std::function<void(const std::vector<int>&)> onDeadlock;   // unfinished fibers exist but none is enabled
    unsigned long long deadlocks = 0;
    std::function<bool()> stop;   // polled now and then: a deadline ends the exploration as "capped" (reported, never called exhaustive)

    /** Run one execution following `prefix`, then always the lowest runnable fiber; returns the list of (runnable sets) and choices made. */
    void runOne(const std::vector<int>& prefix, std::vector<int>& choices, std::vector<std::vector<int>>& enabledAt, std::vector<std::string>& keys) {
        Sched s; Sched::inst() = &s;
        std::vector<std::function<void()>> bodies = setup();
        s.fibers.resize(bodies.size());
        for (size_t i = 0; i < bodies.size(); i++) {
            Fiber& f = s.fibers[i];
            f.body = bodies[i]; f.stack.resize(256 * 1024);
            getcontext(&f.ctx);
            f.ctx.uc_stack.ss_sp = f.stack.data(); f.ctx.uc_stack.ss_size = f.stack.size(); f.ctx.uc_link = &s.mainCtx;
            makecontext(&f.ctx, (void (*)())trampoline, 1, (int)i);
        }
        s.active = true;
        choices.clear(); enabledAt.clear(); keys.clear();
        while (true) {
            std::vector<int> en;
            bool unfinished = false;
            for (size_t i = 0; i < s.fibers.size(); i++) if (!s.fibers[i].done) { unfinished = true; if (!enabled || enabled((int)i)) en.push_back((int)i); }
            if (en.empty()) { if (unfinished) { deadlocks++; if (onDeadlock) onDeadlock(choices); } break; }
            // state key before the step: shared words + per-fiber (done, number of points passed, hash of everything it read)
            std::string key = sharedState();
            for (auto& f : s.fibers) { char b[40]; snprintf(b, sizeof b, "|%d:%d:%016llx", (int)f.done, f.points, (unsigned long long)f.readHash); key += b; }
            size_t step = choices.size();
            int pick = step < prefix.size() ? prefix[step] : en[0];
            enabledAt.push_back(en); keys.push_back(key); choices.push_back(pick);
            s.current = pick;
            swapcontext(&s.mainCtx, &s.fibers[(size_t)pick].ctx);
            transitions++;
        }
        s.active = false;
        Sched::inst() = nullptr;
        if (choices.size() > maxPoints) maxPoints = choices.size();
    }

    void explore() {
        std::vector<std::vector<int>> work = {{}};
        while (!work.empty()) {
            std::vector<int> prefix = work.back(); work.pop_back();
            std::vector<int> choices; std::vector<std::vector<int>> en; std::vector<std::string> keys;
            runOne(prefix, choices, en, keys);
            schedules++;
            atEnd(choices);
            if (maxSchedules && schedules >= maxSchedules) { capped = true; return; }
            if (stop && (schedules & 255) == 0 && stop()) { capped = true; return; }
            // branch on every alternative after the prefix; prune (state, alternative) pairs already expanded
            for (size_t i = prefix.size(); i < choices.size(); i++) {
                if (seen.insert(keys[i]).second) states++;
                for (int alt : en[i]) {
                    if (alt == choices[i]) continue;
                    std::string k2 = keys[i] + "#" + std::to_string(alt);
                    if (!seen.insert(k2).second) { pruned++; continue; }
                    std::vector<int> p(choices.begin(), choices.begin() + (long)i); p.push_back(alt);
                    work.push_back(p);
                }
                // the default choice from this state is also marked expanded
                seen.insert(keys[i] + "#" + std::to_string(choices[i]));
            }
        }
    }
};

} // namespace fib

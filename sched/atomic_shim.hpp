// Atomic shim (DESIGN.md 2.2): force-included (-include) into every TU of the "sched*" flavours.
// std::atomic<T> is replaced by a wrapper that announces every access to the scheduler before performing it on a real
// std::atomic<T>. sizeof / alignment are unchanged. No source change in /repo is needed.
#pragma once
#ifdef __cplusplus
#include <bits/stdc++.h>

// kind: 0 load, 1 store, 2 read-modify-write; +16 when the access uses memory_order_relaxed. Defined by the scheduler (sched/vsched.c or the fiber scheduler); weak so that
// programs without a scheduler still link.
extern "C" void verif_atomic_point(int kind, const void* addr) __attribute__((weak));
// value obtained by a load / RMW (lets a stateful explorer include thread-local knowledge in its state key)
extern "C" void verif_atomic_read(unsigned long long value) __attribute__((weak));

namespace std {
template <class T> struct verif_atomic {
    ::std::atomic<T> v;
    verif_atomic() noexcept = default;
    constexpr verif_atomic(T x) noexcept : v(x) {}
    verif_atomic(const verif_atomic&) = delete;
    verif_atomic& operator=(const verif_atomic&) = delete;
    static void pt(int k, const void* a, memory_order o = memory_order_seq_cst) { if (verif_atomic_point) verif_atomic_point(k | (o == memory_order_relaxed ? 16 : 0), a); }
    T load(memory_order o = memory_order_seq_cst) const noexcept { pt(0, this, o); T r = v.load(o); if (verif_atomic_read) verif_atomic_read((unsigned long long)r); return r; }
    void store(T x, memory_order o = memory_order_seq_cst) noexcept { pt(1, this, o); v.store(x, o); }
    operator T() const noexcept { return load(); }
    T operator=(T x) noexcept { store(x); return x; }
    T exchange(T x, memory_order o = memory_order_seq_cst) noexcept { pt(2, this, o); return v.exchange(x, o); }
    bool compare_exchange_strong(T& e, T d, memory_order o = memory_order_seq_cst) noexcept { pt(2, this, o); return v.compare_exchange_strong(e, d, o); }
    bool compare_exchange_weak(T& e, T d, memory_order o = memory_order_seq_cst) noexcept { pt(2, this, o); return v.compare_exchange_strong(e, d, o); }
    T fetch_add(T x, memory_order o = memory_order_seq_cst) noexcept { pt(2, this, o); return v.fetch_add(x, o); }
    T fetch_sub(T x, memory_order o = memory_order_seq_cst) noexcept { pt(2, this, o); return v.fetch_sub(x, o); }
    T fetch_or(T x, memory_order o = memory_order_seq_cst) noexcept { pt(2, this, o); return v.fetch_or(x, o); }
    T fetch_and(T x, memory_order o = memory_order_seq_cst) noexcept { pt(2, this, o); return v.fetch_and(x, o); }
    T operator+=(T x) noexcept { return fetch_add(x) + x; }
    T operator-=(T x) noexcept { return fetch_sub(x) - x; }
    T operator++() noexcept { return fetch_add(1) + 1; }
    T operator++(int) noexcept { return fetch_add(1); }
    T operator--() noexcept { return fetch_sub(1) - 1; }
    T operator--(int) noexcept { return fetch_sub(1); }
    bool is_lock_free() const noexcept { return v.is_lock_free(); }
};
}
#define atomic verif_atomic
#endif

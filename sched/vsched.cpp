// vsched: controlled (token passing) scheduler for the real engine threads (DESIGN.md 3.5).
// Linked into the harness executable; its definitions of the pthread / time functions pre-empt libc's (libstdc++'s std::mutex,
// condition_variable, thread and sleep_for reach libc through these symbols). Compiled WITHOUT sanitizer instrumentation: the token is
// handed over with raw futex syscalls that ThreadSanitizer does not see, so only the program's own synchronisation orders accesses.
#include "vsched.h"
#include <pthread.h>
#include <dlfcn.h>
#include <time.h>
#include <errno.h>
#include <stdint.h>
#include <stdio.h>
#include <stdlib.h>
#include <string.h>
#include <unistd.h>
#include <sys/syscall.h>
#include <linux/futex.h>
#include <limits.h>

#if defined(__SANITIZE_THREAD__)
#error "vsched.cpp must be compiled without -fsanitize=thread"
#endif

namespace {

enum Op { OP_NONE, OP_START, OP_LOCK, OP_UNLOCK, OP_WAIT, OP_REACQ, OP_SIGNAL, OP_BCAST, OP_CREATE, OP_JOIN, OP_SLEEP, OP_YIELD, OP_ATOMIC, OP_EXITED };
enum St { ST_FREE, ST_RUNNABLE, ST_CONDWAIT, ST_FINISHED };

const int MAXT = 32, MAXM = 4096;
struct Thr {
    int state; int op; const void* obj; const void* obj2; int joinTarget;
    long long wakeUs; int go; int yielding; int consec;
    const void* lastObj[3]; int lastOp[3];
    pthread_t real; int parent; int nthChild; int nChildren;
    void* (*start)(void*); void* arg;
};
struct Mtx { const void* addr; int owner; };

Thr T[MAXT]; int nThr = 0;
Mtx M[MAXM]; int nMtx = 0;
volatile int active = 0;
int current = -1;
__thread int myId = -1;

// schedule to follow + trace
const int* prefix = nullptr; int prefixLen = 0;
VsTrace* trace = nullptr;
long long clockUs = 0; long long tickUs = 1; long long queryUs = 1;
long long steps = 0, horizon = 2000000;
int starvation = 64;

typedef int (*mtx_fn)(pthread_mutex_t*);
typedef int (*create_fn)(pthread_t*, const pthread_attr_t*, void* (*)(void*), void*);
typedef int (*join_fn)(pthread_t, void**);
mtx_fn real_lock, real_unlock, real_trylock;
create_fn real_create; join_fn real_join;
int (*real_clock_gettime)(clockid_t, struct timespec*);
int (*real_nanosleep)(const struct timespec*, struct timespec*);
int (*real_cond_wait)(pthread_cond_t*, pthread_mutex_t*);
int (*real_cond_bcast)(pthread_cond_t*);
int (*real_cond_signal)(pthread_cond_t*);

void resolve() {
    if (real_lock) return;
    real_lock = (mtx_fn)dlsym(RTLD_NEXT, "pthread_mutex_lock");
    real_unlock = (mtx_fn)dlsym(RTLD_NEXT, "pthread_mutex_unlock");
    real_trylock = (mtx_fn)dlsym(RTLD_NEXT, "pthread_mutex_trylock");
    real_create = (create_fn)dlsym(RTLD_NEXT, "pthread_create");
    real_join = (join_fn)dlsym(RTLD_NEXT, "pthread_join");
    real_clock_gettime = (int (*)(clockid_t, struct timespec*))dlsym(RTLD_NEXT, "clock_gettime");
    real_nanosleep = (int (*)(const struct timespec*, struct timespec*))dlsym(RTLD_NEXT, "nanosleep");
    real_cond_wait = (int (*)(pthread_cond_t*, pthread_mutex_t*))dlsym(RTLD_NEXT, "pthread_cond_wait");
    real_cond_bcast = (int (*)(pthread_cond_t*))dlsym(RTLD_NEXT, "pthread_cond_broadcast");
    real_cond_signal = (int (*)(pthread_cond_t*))dlsym(RTLD_NEXT, "pthread_cond_signal");
}

void futexWait(int* addr, int val) { syscall(SYS_futex, addr, FUTEX_WAIT, val, nullptr, nullptr, 0); }
void futexWake(int* addr) { syscall(SYS_futex, addr, FUTEX_WAKE, INT_MAX, nullptr, nullptr, 0); }

Mtx* mtx(const void* a) {
    for (int i = 0; i < nMtx; i++) if (M[i].addr == a) return &M[i];
    if (nMtx >= MAXM) { // recycle: drop unowned entries
        int k = 0; for (int i = 0; i < nMtx; i++) if (M[i].owner >= 0) M[k++] = M[i]; nMtx = k;
        if (nMtx >= MAXM) { fprintf(stderr, "[vsched] mutex table full\n"); _exit(97); }
    }
    M[nMtx].addr = a; M[nMtx].owner = -1; return &M[nMtx++];
}

bool enabled(int i) {
    Thr& t = T[i];
    if (t.state != ST_RUNNABLE) return false;
    switch (t.op) {
    case OP_LOCK: case OP_REACQ: return mtx(t.obj)->owner < 0;
    case OP_JOIN: return T[t.joinTarget].state == ST_FINISHED;
    default: return true;
    }
}

void fail(int code, const char* what) {
    if (trace) { trace->result = code; snprintf(trace->message, sizeof trace->message, "%s", what);
        // thread states for the report
        size_t n = strlen(trace->message);
        for (int i = 0; i < nThr && n + 40 < sizeof trace->message; i++) n += (size_t)snprintf(trace->message + n, sizeof trace->message - n, " | T%d st%d op%d", i, T[i].state, T[i].op);
    }
    fprintf(stderr, "[vsched] %s\n", what);
    _exit(code == VS_DEADLOCK ? 90 : code == VS_HORIZON ? 91 : 92);
}

/** Pick the next thread to run and hand the token over. Called by the token holder `me` (or -1 when `me` just finished/blocked). */
int schedule(int me) {
    steps++;
    clockUs += tickUs;
    if (steps > horizon) fail(VS_HORIZON, "step horizon exceeded (livelock or runaway execution)");
    // canonical order of enabled threads
    int order[MAXT], n = 0;
    bool meEnabled = me >= 0 && enabled(me);
    bool othersRunnable = false;
    for (int i = 0; i < nThr; i++) if (i != me && enabled(i) && !T[i].yielding) othersRunnable = true;
    bool meYield = meEnabled && (T[me].yielding || (othersRunnable && T[me].consec >= starvation));
    if (meEnabled && !meYield) order[n++] = me;
    for (int i = 0; i < nThr; i++) if (i != me && enabled(i) && !T[i].yielding) order[n++] = i;
    // yielding threads last: sleepers whose wake-up time has passed first, then pollers (the caller last), then future sleepers by wake-up time
    int ys[MAXT], ny = 0;
    for (int i = 0; i < nThr; i++) if (enabled(i) && ((i == me) ? meYield : T[i].yielding)) ys[ny++] = i;
    auto key = [&](int i) -> long long { long long w = T[i].wakeUs; if (T[i].op == OP_SLEEP) return w <= clockUs ? -1 : w; return clockUs; };
    for (int a = 0; a < ny; a++) for (int b = a + 1; b < ny; b++) {
        long long ka = key(ys[a]), kb = key(ys[b]);
        bool less = kb < ka || (kb == ka && ((ys[a] == me && ys[b] != me) || (ys[a] != me && ys[b] != me && ys[b] < ys[a])));
        if (less) { int t = ys[a]; ys[a] = ys[b]; ys[b] = t; }
    }
    for (int a = 0; a < ny; a++) order[n++] = ys[a];
    if (n == 0) {
        bool allDone = true; for (int i = 0; i < nThr; i++) if (T[i].state != ST_FINISHED) allDone = false;
        if (allDone) { current = -1; return -1; }
        fail(VS_DEADLOCK, "deadlock: no enabled thread");
    }
    int step = trace ? trace->nPoints : 0;
    int choice = 0;
    if (step < prefixLen) {
        choice = prefix[step];
        if (choice >= n) { if (trace) trace->diverged = 1; fail(VS_DIVERGED, "replay diverged: choice out of range"); }
    }
    int next = order[choice];
    if (trace) {
        if (trace->nPoints < VS_MAXPOINTS) {
            trace->nOptions[trace->nPoints] = (unsigned char)(n > 255 ? 255 : n);
            trace->chosen[trace->nPoints] = (unsigned char)choice;
            trace->thread[trace->nPoints] = (unsigned char)next;
            trace->op[trace->nPoints] = (unsigned char)T[next].op;
        }
        trace->nPoints++;
        if (n > 1) trace->nBranchPoints++;
        // cheap order-insensitive state fingerprint contribution
        trace->fingerprint = trace->fingerprint * 1099511628211ULL ^ (unsigned long long)(next * 131 + T[next].op);
    }
    // fairness bookkeeping
    if (next == me) T[me].consec++; else { if (me >= 0) T[me].consec = 0; T[next].consec = 0; }
    // apply the granted operation to the model
    Thr& t = T[next];
    switch (t.op) {
    case OP_LOCK: case OP_REACQ: mtx(t.obj)->owner = next; break;
    case OP_SLEEP: if (t.wakeUs > clockUs) clockUs = t.wakeUs; break;
    default: break;
    }
    t.yielding = 0;
    current = next;
    if (next != me) {
        __atomic_store_n(&t.go, 1, __ATOMIC_SEQ_CST);
        futexWake(&t.go);
    }
    return next;
}

void park(int me) {
    while (__atomic_load_n(&T[me].go, __ATOMIC_SEQ_CST) == 0) futexWait(&T[me].go, 0);
    __atomic_store_n(&T[me].go, 0, __ATOMIC_SEQ_CST);
}

/** A scheduling point of the calling (token holding) thread before operation op on obj. */
void point(int op, const void* obj, const void* obj2 = nullptr, int joinTarget = -1, long long wakeUs = 0, int yielding = 0) {
    int me = myId;
    Thr& t = T[me];
    t.op = op; t.obj = obj; t.obj2 = obj2; t.joinTarget = joinTarget; t.wakeUs = wakeUs;
    // poll pattern: lock, unlock, lock of the same mutex => the thread is polling an empty mailbox
    if (op == OP_LOCK && t.lastOp[0] == OP_UNLOCK && t.lastObj[0] == obj && t.lastOp[1] == OP_LOCK && t.lastObj[1] == obj && t.lastOp[2] == OP_UNLOCK && t.lastObj[2] == obj) yielding = 1;
    t.yielding = yielding;
    t.lastOp[2] = t.lastOp[1]; t.lastObj[2] = t.lastObj[1]; t.lastOp[1] = t.lastOp[0]; t.lastObj[1] = t.lastObj[0]; t.lastOp[0] = op; t.lastObj[0] = obj;
    // decide on the value returned by schedule(), never on the shared variable: the granted thread may already have run on and
    // granted us again by the time we look
    if (schedule(me) != me) park(me);
}

struct StartArg { int id; };

void* trampoline(void* p) {
    int id = (int)(intptr_t)p;
    myId = id;
    park(id);                       // wait until the scheduler grants OP_START
    void* r = T[id].start(T[id].arg);
    // thread end: give the token away without waiting
    T[id].state = ST_FINISHED; T[id].op = OP_EXITED;
    myId = -1;
    schedule(-1);
    return r;
}

} // namespace

// ------------------------------------------------------------------------------------------------ public control
extern "C" void vs_begin(const int* choices, int nChoices, VsTrace* tr, long long tickMicros, long long horizonSteps) {
    resolve();
    memset(T, 0, sizeof T); nThr = 1; nMtx = 0;
    T[0].state = ST_RUNNABLE; T[0].parent = -1; myId = 0; current = 0;
    prefix = choices; prefixLen = nChoices; trace = tr;
    if (trace) { trace->nPoints = 0; trace->nBranchPoints = 0; trace->result = VS_OK; trace->diverged = 0; trace->message[0] = 0; trace->fingerprint = 1469598103934665603ULL; }
    clockUs = 0; tickUs = tickMicros; steps = 0; if (horizonSteps > 0) horizon = horizonSteps;
    __atomic_store_n(&active, 1, __ATOMIC_SEQ_CST);
}
extern "C" void vs_end() {
    __atomic_store_n(&active, 0, __ATOMIC_SEQ_CST);
    if (trace) trace->finalClockUs = clockUs;
    myId = -1;
}
extern "C" long long vs_now_us() { return clockUs; }
extern "C" void vs_advance_us(long long us) { if (active && myId >= 0) clockUs += us; }
extern "C" void vs_set_query_us(long long us) { queryUs = us; }
extern "C" void vs_advance_us_wake(long long us) {
    if (!(active && myId >= 0)) return;
    clockUs += us;
    for (int i = 0; i < nThr; i++)
        if (i != myId && T[i].state == ST_RUNNABLE && T[i].op == OP_SLEEP && T[i].wakeUs <= clockUs) { point(OP_YIELD, nullptr, nullptr, -1, clockUs, 1); break; }
}
extern "C" int vs_active() { return active && myId >= 0; }

static inline bool managed() { return active && myId >= 0; }

// ------------------------------------------------------------------------------------------------ interposed functions
extern "C" int pthread_mutex_lock(pthread_mutex_t* m) {
    resolve();
    if (!managed()) return real_lock(m);
    point(OP_LOCK, m);
    return real_lock(m);
}
extern "C" int pthread_mutex_trylock(pthread_mutex_t* m) {
    resolve();
    if (!managed()) return real_trylock(m);
    point(OP_YIELD, m);
    Mtx* x = mtx(m);
    if (x->owner >= 0) return EBUSY;
    x->owner = myId;
    return real_trylock(m);
}
extern "C" int pthread_mutex_unlock(pthread_mutex_t* m) {
    resolve();
    if (!managed()) return real_unlock(m);
    point(OP_UNLOCK, m);
    int rc = real_unlock(m);
    mtx(m)->owner = -1;
    return rc;
}
static int condWait(pthread_cond_t* c, pthread_mutex_t* m) {
    int me = myId;
    point(OP_WAIT, c, m);
    // granted: release the mutex and block until signalled
    real_unlock(m);
    mtx(m)->owner = -1;
    T[me].state = ST_CONDWAIT; T[me].obj = c; T[me].obj2 = m;
    schedule(me);            // me is not enabled now
    park(me);                // resumed by a grant of OP_REACQ (model owner already set)
    real_lock(m);
    return 0;
}
extern "C" int pthread_cond_wait(pthread_cond_t* c, pthread_mutex_t* m) {
    resolve();
    if (!managed()) return real_cond_wait(c, m);
    return condWait(c, m);
}
extern "C" int pthread_cond_clockwait(pthread_cond_t* c, pthread_mutex_t* m, clockid_t, const struct timespec*) {
    resolve();
    // the engine uses timed waits only in cluster mode; a timed wait is modelled as an untimed one whose time-out never fires first
    if (!managed()) return real_cond_wait(c, m);
    return condWait(c, m);
}
extern "C" int pthread_cond_timedwait(pthread_cond_t* c, pthread_mutex_t* m, const struct timespec*) {
    resolve();
    if (!managed()) return real_cond_wait(c, m);
    return condWait(c, m);
}
static int condWake(pthread_cond_t* c, bool all) {
    point(all ? OP_BCAST : OP_SIGNAL, c);
    for (int i = 0; i < nThr; i++) if (T[i].state == ST_CONDWAIT && T[i].obj == c) {
        T[i].state = ST_RUNNABLE; T[i].op = OP_REACQ; T[i].obj = T[i].obj2; T[i].yielding = 0;
        if (!all) break;
    }
    return 0;
}
extern "C" int pthread_cond_broadcast(pthread_cond_t* c) { resolve(); if (!managed()) return real_cond_bcast(c); return condWake(c, true); }
extern "C" int pthread_cond_signal(pthread_cond_t* c) { resolve(); if (!managed()) return real_cond_signal(c); return condWake(c, false); }

extern "C" int pthread_create(pthread_t* th, const pthread_attr_t* attr, void* (*start)(void*), void* arg) {
    resolve();
    if (!managed()) return real_create(th, attr, start, arg);
    point(OP_CREATE, nullptr);
    if (nThr >= MAXT) { fprintf(stderr, "[vsched] too many threads\n"); _exit(97); }
    int id = nThr++;
    Thr& t = T[id];
    memset(&t, 0, sizeof t);
    t.state = ST_RUNNABLE; t.op = OP_START; t.start = start; t.arg = arg; t.parent = myId; t.nthChild = T[myId].nChildren++;
    int rc = real_create(th, attr, trampoline, (void*)(intptr_t)id);
    t.real = *th;
    return rc;
}
extern "C" int pthread_join(pthread_t th, void** ret) {
    resolve();
    if (!managed()) return real_join(th, ret);
    int target = -1;
    for (int i = 0; i < nThr; i++) if (T[i].start && pthread_equal(T[i].real, th)) target = i;
    if (target >= 0) point(OP_JOIN, nullptr, nullptr, target);
    return real_join(th, ret);
}

static void virtualSleep(long long us) {
    point(OP_SLEEP, nullptr, nullptr, -1, clockUs + us, 1);
}
extern "C" int nanosleep(const struct timespec* req, struct timespec* rem) {
    resolve();
    if (!managed()) return real_nanosleep(req, rem);
    virtualSleep((long long)req->tv_sec * 1000000LL + req->tv_nsec / 1000);
    if (rem) { rem->tv_sec = 0; rem->tv_nsec = 0; }
    return 0;
}
extern "C" int clock_nanosleep(clockid_t, int flags, const struct timespec* req, struct timespec* rem) {
    resolve();
    if (!managed()) { static int (*real)(clockid_t, int, const struct timespec*, struct timespec*) = (int (*)(clockid_t, int, const struct timespec*, struct timespec*))dlsym(RTLD_NEXT, "clock_nanosleep"); return real(CLOCK_MONOTONIC, flags, req, rem); }
    long long us = (long long)req->tv_sec * 1000000LL + req->tv_nsec / 1000;
    if (flags & TIMER_ABSTIME) us -= clockUs + 1000000000LL;   // virtual epoch offset, see clock_gettime
    if (us < 0) us = 0;
    virtualSleep(us);
    return 0;
}
extern "C" int sched_yield(void) {
    if (!managed()) return 0;
    point(OP_YIELD, nullptr, nullptr, -1, clockUs, 1);
    return 0;
}
extern "C" int clock_gettime(clockid_t id, struct timespec* ts) {
    resolve();
    if (!managed()) return real_clock_gettime(id, ts);
    clockUs += queryUs;
    long long t = clockUs + 1000000000LL;      // virtual epoch: 1000 s
    ts->tv_sec = t / 1000000; ts->tv_nsec = (t % 1000000) * 1000;
    return 0;
}

// atomic shim hooks: sequentially consistent stores / read-modify-writes of the control variables are scheduling points
extern "C" void verif_atomic_point(int kind, const void* addr) {
    if (!managed() || (kind & 15) == 0 || (kind & 16)) return;   // loads and relaxed accesses (hash table words, time limits) are not scheduling points
    if (vs_atomic_filter && !vs_atomic_filter(addr)) return;
    point(OP_ATOMIC, addr);
}
extern "C" int (*vs_atomic_filter)(const void*) = nullptr;

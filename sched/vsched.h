// Public interface of the controlled scheduler (sched/vsched.cpp).
#pragma once
#ifdef __cplusplus
extern "C" {
#endif

enum { VS_OK = 0, VS_DEADLOCK = 1, VS_HORIZON = 2, VS_DIVERGED = 3 };
#define VS_MAXPOINTS 60000

typedef struct VsTrace {
    int nPoints;                 /* scheduling points executed */
    int nBranchPoints;           /* points with more than one enabled thread */
    int result;                  /* VS_OK / VS_DEADLOCK / VS_HORIZON / VS_DIVERGED */
    int diverged;
    long long finalClockUs;
    unsigned long long fingerprint;
    char message[512];
    unsigned char nOptions[VS_MAXPOINTS];   /* number of enabled threads at point i (canonical order) */
    unsigned char chosen[VS_MAXPOINTS];     /* index chosen */
    unsigned char thread[VS_MAXPOINTS];     /* thread id granted */
    unsigned char op[VS_MAXPOINTS];         /* operation granted */
} VsTrace;

/** Start controlling the calling thread (becomes thread 0). choices: schedule prefix to replay (index into the canonical enabled list
 *  at each point); afterwards the default policy (index 0) is used. */
void vs_begin(const int* choices, int nChoices, VsTrace* trace, long long tickMicros, long long horizonSteps);
void vs_end(void);
long long vs_now_us(void);
/** Advance the virtual clock (work tick driven by the harness). Only effective when called by a managed thread. */
void vs_advance_us(long long us);
/* like vs_advance_us, and if a sleeping thread has become due, yield to it right here (a timer landing in the middle of a computation) */
void vs_advance_us_wake(long long us);
/** Cost of one clock query (default 1 us). */
void vs_set_query_us(long long us);
int vs_active(void);
extern int (*vs_atomic_filter)(const void*);
#ifdef __cplusplus
}
#endif

"""Check registry: property -> parts (harness target, flavour, args per tier)."""
import os

def P(name, target, flavour, args, **kw):
    d = dict(name=name, target=target, flavour=flavour, args=args)
    d.update(kw)
    return d

CHECKS = {}

# ------------------------------------------------------------------------------------------ C01
def c01_parts(tier, seed):
    q = tier == "quick"
    nclass = 80  # all 4-men classes incl. pawns
    parts = [
        P("selftest", "c01_movegen", "seq", ["--part", "selftest"], workers=6, require=["oracle_selftest_ok"]),
        P("U-TBL", "c01_movegen", "seq", ["--part", "tbl"], require=["states"]),
        P("U-3", "c01_movegen", "seq", ["--part", "u3", "--wk", 0], require=["in_check", "checking_moves"]),
        P("U-EP", "c01_movegen", "seq", ["--part", "uep", "--sliders", 7], require=["with_legal_ep"]),
        P("U-CASTLE", "c01_movegen", "seq", ["--part", "ucastle", "--blockers", 0 if q else 1], require=["states"]),
        P("U-KRAID", "c01_movegen", "seq", ["--part", "ukraid"], require=["states"]),
        P("U-PERFT", "c01_movegen", "seq", ["--part", "perft", "--depth", 3 if q else 4], require=["captures"]),
    ]
    if q:
        # rotating slice of the 4-men classes, white king in the symmetry triangle (files a-d for pawn classes)
        parts.append(P("U-4", "c01_movegen", "fast", ["--part", "u4", "--wk", 2, "--from", (seed * 8) % nclass, "--count", 8],
                       require=["states"], deadline_frac=0.5))
    else:
        parts.append(P("U-4", "c01_movegen", "fast", ["--part", "u4", "--wk", 1, "--from", 0, "--count", nclass],
                       require=["states"], deadline_frac=0.9))
    return parts

CHECKS["C01"] = dict(
    parts=c01_parts,
    rule="every position of the universes U-TBL, U-3, U-EP, U-CASTLE, U-4 (tier dependent slice), U-PERFT(seeds,d) is visited exactly once "
         "(states = positions accepted by the FEN reader, transitions = legal moves checked); a position is non-trivial when the side to move "
         "is in check, an en-passant or castling right exists, a pinned piece/illegal king step removes a pseudo-legal move, or a promotion is available",
    alphabet="positions: complete small universes; operations: pseudoLegalMoves+removeIllegal, checkEvasions, pseudoLegalCaptures, "
             "pseudoLegalCapturesAndChecks, isLegal, givesCheck, inCheck, sqAttacked, canTakeKing, rook/bishopAttacks, squaresBetween, getDirection",
    oracle="independent mailbox/ray-walking rules oracle (oracle/chess.hpp), itself cross-checked against 6 published perft counts",
    bound=dict(quick="U-3 all, U-EP all, U-CASTLE (back-rank blockers), U-PERFT depth 3, 8 rotating 4-men classes (wK triangle)",
               thorough="all universes, U-PERFT depth 4, all 80 4-men classes with wK on files a-d"),
    assumptions=["positions with more than 5 men are reached only through U-PERFT trees of the seed list",
                 "under-promotions to rook/bishop are outside the captures / captures-and-checks classes (allPromotions=false in the code)"],
)

NOT_YET = {}

# ------------------------------------------------------------------------------------------ C02
def c02_parts(tier, seed):
    q = tier == "quick"
    parts = [
        P("tree", "c02_position", "seq", ["--part", "tree", "--depth", 3 if q else 4], require=["transpositions", "nontrivial"], deadline_frac=0.8),
        P("U-3x2", "c02_position", "seq", ["--part", "u3", "--wk", 1 if q else 0, "--depth", 1 if q else 2], require=["states"], deadline_frac=0.8),
        P("matid", "c02_position", "seq", ["--part", "matid", "--stride", 97 if q else 1], require=["nontrivial"]),
        P("U-KRAID", "c02_position", "seq", ["--part", "ukraid", "--depth", 1 if q else 2], require=["states"], deadline_frac=0.8),
    ]
    if not q:
        parts.append(P("U-EPx2", "c02_position", "seq", ["--part", "uep", "--sliders", 1, "--depth", 2], require=["states"], deadline_frac=0.8))
        parts.append(P("U-CASTLEx2", "c02_position", "seq", ["--part", "ucastle", "--blockers", 0, "--depth", 2], require=["states"], deadline_frac=0.8))
    return parts

CHECKS["C02"] = dict(
    parts=c02_parts,
    rule="states = nodes of the make/unmake trees (each node is a distinct move history from its root) plus material vectors; transitions = makeMove/unMakeMove "
         "pairs executed; a history is non-trivial when the node has a capture, promotion or castling move among its legal moves (trees) or a side has >= 6 queens (matid)",
    alphabet="operations: makeMove, unMakeMove, null-move edits (setWhiteMove/setEpSquare/setHalfMoveClock), toFEN/readFEN, serialize/deSerialize, hashAfterMove, "
             "MatId::addPiece/addPieceCnt/removePiece; roots: seed list, U-3, U-EP, U-CASTLE, U-KRAID (one side with king and rooks at home and every subset of its rights, the other side to move with its king on every square and "
             "optionally one more piece anywhere: corner rooks captured or attacked while the right is still held)",
    oracle="bit-identical field comparison after unmake; every incremental attribute recomputed from the board (harness code + computeZobristHash on a copy); "
           "lock-step independent oracle board; FIDE repetition key -> hash map for the hash-equality clause",
    bound=dict(quick="all move sequences of depth 3 from 30 seeds (incl. seeds reaching 6-8 queens), depth 1 from U-3 (wK files a-d), material vectors thinned by 97",
               thorough="depth 4 from seeds, depth 2 from U-3/U-EP(Q)/U-CASTLE, all material vector pairs"),
    assumptions=["pieceTypeBB_[EMPTY] and struct padding are not part of the position's value (ignored by operator==, read by nothing)",
                 "compact form stores 8/16 bits of the counters: round trip checked for half-move clock <= 255 and full-move counter <= 65535"],
    technique="explicit-state enumeration of all move/take-back histories to a depth bound on the real Position, from-scratch reference recomputation in every state",
    level_text="All make/unmake histories up to the depth bound from every root of the seed list and small universes are executed on the real code; each node is checked "
               "against a from-scratch recomputation and an independent oracle, each unmake against a saved copy. Exhaustive within the bound, which is what a "
               "history-quantified invariant of a small state machine needs.",
    level_note="Trusted: the oracle and the harness's from-scratch recomputation; histories longer than the depth bound are covered only as suffixes from many roots.",
)

CHECKS["C01"].update(
    technique="bounded-exhaustive enumeration of complete small position universes (explicit-state), real move generator vs independent rules oracle",
    level_text="Every position of the stated finite universes (all <=3-men placements, en-passant and castling families, 4-men classes, perft trees "
               "under a seed list, all slider occupancies) is enumerated and every move list and per-move verdict of the real generator is compared "
               "with an independent oracle; this is exhaustive within the universes, not a sample, and is the right level for a pure function of the position.",
    level_note="Trusted: the independent oracle (cross-checked against published perft counts in the same run); positions outside the universes are not covered.",
)

# ------------------------------------------------------------------------------------------ C15
def c15_parts(tier, seed):
    q = tier == "quick"
    parts = [
        P("U-PERFT", "c15_revmovegen", "seq", ["--part", "perft", "--depth", 2 if q else 3], require=["ep_captures", "capture_promotions", "rights_losing_moves"]),
        P("U-3", "c15_revmovegen", "fast", ["--part", "u3", "--wk", 2 if q else 1, "--types", 0x64 if q else 0x7c], require=["states"]),
        P("U-CASTLE", "c15_revmovegen", "seq", ["--part", "ucastle", "--blockers", 0], require=["rights_losing_moves"]),
        P("U-KRAID", "c15_revmovegen", "fast", ["--part", "ukraid"], require=["rights_losing_moves"]),
        P("U-EP", "c15_revmovegen", "fast", ["--part", "uep"] + (["--sliders", 3, "--files", 17, "--sides", 2] if q else ["--sliders", 7]), require=["ep_captures"]),
    ]
    if not q:
        parts.append(P("U-4", "c15_revmovegen", "fast", ["--part", "u4", "--from", 0, "--count", 80], require=["states"], deadline_frac=0.9))
    return parts

CHECKS["C15"] = dict(
    parts=c15_parts,
    rule="states = positions P (FEN-normalised) of the universes, evaluations = (P,m) pairs checked for completeness, transitions = un-moves checked for consistency "
         "(every un-move of every distinct successor Q, both values of includeAllEpSquares); P is non-trivial when one of its moves is a capture, promotion, castling, "
         "changes castling rights, or P or Q carries an en-passant right",
    alphabet="positions: U-PERFT(seeds,d), U-3, U-CASTLE, U-EP, U-4 slice; operations: makeMove + fixupEPSquare, RevMoveGen::genMoves(Q, false/true), unMakeMove",
    oracle="independent rules oracle: listed un-move restores a position where the move is legal (oracle generator) and leads back to Q (oracle apply and texel makeMove); "
           "(m, undo info of P) is contained in the list of Q",
    bound=dict(quick="U-PERFT depth 2, U-3 (wK triangle; X in Q,N,P), U-CASTLE, U-EP slice (files a,e; right neighbour; Q,R)",
               thorough="U-PERFT depth 3, U-3 (wK a-d), U-CASTLE, U-EP all, all 80 4-men classes"),
    assumptions=["positions are FEN-normalised (ep square only if the capture is legal), as RevMoveGen's callers hold them",
                 "ep-carrying predecessors are only promised with includeAllEpSquares=true",
                 "restored predecessors need not be valid positions (header: 'some but not all' invalid predecessors are excluded); they are counted, not flagged"],
    technique="bounded-exhaustive enumeration of (position, move) pairs over complete small universes, forward/backward conformance against an independent oracle",
    level_text="Every (P,m) pair of the universes is checked for completeness and every un-move of every successor for consistency; exhaustive within the universes.",
    level_note="Trusted: the independent oracle; positions with many men only through the seed trees.",
)

# ------------------------------------------------------------------------------------------ C20
def c20_parts(tier, seed):
    fl = "seq"
    return [
        P("mixed-preferences", "c20_csp", fl, ["--part", "mixed"], require=["satisfiable", "unsatisfiable"], deadline_frac=0.3),
        P("n1", "c20_csp", fl, ["--part", "n1"], require=["satisfiable", "unsatisfiable"]),
        P("n2", "c20_csp", fl, ["--part", "n2"], require=["satisfiable", "unsatisfiable"], deadline_frac=0.9),
        P("n3", "c20_csp", fl, ["--part", "n3"], require=["satisfiable", "unsatisfiable"], deadline_frac=0.9),
    ]

CHECKS["C20"] = dict(
    parts=c20_parts,
    rule="states = constraint systems enumerated (each distinct by construction of the nested enumeration), transitions = solve() calls (all four preference orders "
         "on 1/8 of the systems chosen by a fixed hash of the index, one order otherwise); a system is non-trivial when it has >= 1 constraint and every initial range is non-empty",
    alphabet="1..3 variables; ranges from a boundary list inside [-16,47] incl. empty ranges and the full window; parity none/even/odd; addMinVal/addMaxVal tightenings inside the "
             "window; constraints v_i {<=,>=,==} v_j + c incl. i == j and 3-cycles; "
             "mixed preferences: 3 variables over 4 (6) ranges each, v1 and v2 tied to v0 (and to each other) by {<=,>=,==} with c in -2..2, solved under all 4^3 assignments of a "
             "value-ordering preference (SMALL, LARGE, MIDDLE_SMALL, MIDDLE_LARGE) to each variable",
    oracle="brute force over all assignments of the initial ranges: solve()==true iff a solution exists; any returned assignment satisfies every range, parity and constraint; "
           "every system with constraints is additionally solved with a history: all but the last constraint, solve(), the last constraint, solve() again - the second answer must be that of the whole system",
    bound=dict(quick="n=1: all ranges x parity x 7 tightenings x <=2 self-constraints (c in 9 values); n=2: 12 ranges x parity x 3 tightenings per variable, <=2 constraints over c in 5 values; "
                     "n=3: 6 ranges x 2 parities, <=1 constraint + all 3-cycles with c in [-2,2]",
               thorough="n=2 with 13 ranges (incl. the full window) and c in 9 values; n=3 with <=2 constraints"),
    assumptions=["arguments stay inside the solver's supported limits (values in [-16,47]); BitSet::removeSmaller/removeLarger outside the window are out of domain (DESIGN 2.3-10)"],
    technique="bounded-exhaustive enumeration of small constraint systems on the real solver against a brute-force reference",
    level_text="Every system of the stated alphabet with up to 3 variables is solved by the real code and compared with exhaustive search over its assignments.",
    level_note="Trusted: the brute-force reference; systems with more than 3 variables or more constraints are not covered.",
)

# ------------------------------------------------------------------------------------------ C17
def c17_parts(tier, seed):
    q = tier == "quick"
    T = "c17_text"
    parts = [
        P("U-LIKE", T, "fast", ["--part", "ulike", "--kstep", 3 if q else 1], require=["nontrivial"]),
        P("U-LIKE-pin", T, "fast", ["--part", "ulikepin", "--kstep", 13 if q else 5], require=["nontrivial"]),
        P("U-3", T, "fast", ["--part", "u3", "--wk", 2 if q else 0], require=["states"]),
        P("U-CASTLE", T, "seq", ["--part", "ucastle"], require=["states"]),
        P("U-EP", T, "fast", ["--part", "uep", "--sliders", 1, "--files", 17 if q else 255, "--sides", 2 if q else 3], require=["states"]),
        P("U-PERFT", T, "seq", ["--part", "perft", "--depth", 2 if q else 3], require=["nontrivial"]),
        P("pgn-trees", T, "seq", ["--part", "pgntrees", "--nodes", 5 if q else 7], require=["nontrivial"], deadline_frac=0.9),
        P("g-fen", T, "seq", ["--part", "g-fen"], require=["accepted", "rejected"]),
        P("g-fenbytes", T, "seq", ["--part", "g-fenbytes"], require=["accepted", "rejected"]),
        P("g-move", T, "seq", ["--part", "g-move"], require=["accepted", "rejected"]),
        P("g-pgn", T, "seq", ["--part", "g-pgn"], require=["accepted", "rejected"], deadline_frac=0.9),
        P("g-pgnnest", T, "seq", ["--part", "g-pgnnest"], require=["accepted"]),
        P("g-pgnbytes", T, "seq", ["--part", "g-pgnbytes"], require=["accepted", "rejected"]),
    ]
    return parts

CHECKS["C17"] = dict(
    parts=c17_parts,
    rule="states = positions (move-text parts), written game trees x annotation pattern (pgn-trees) or garbage inputs (g-*), each generated once by nested enumeration; "
         "transitions = moves converted and parsed back / parser calls; non-trivial = position where a disambiguated piece move or a promotion occurs, tree with >= 3 nodes "
         "and annotations, or a garbage input that the parser accepted (and whose result was then exercised)",
    alphabet="(1) positions U-LIKE (3 like pieces, optional pinning rook), U-3, U-CASTLE, U-EP slice, U-PERFT x every legal move x {short, long, UCI}; (2) all ordered game trees "
             "with <= N move nodes over the first 3 legal moves per position from 3 roots x 4 annotation patterns (none, comments, NAGs, pre+post comments with syntax characters+NAGs); "
             "(3) token-level garbage for FEN (6 field alphabets, full product), move text and PGN, nesting families up to 4096, every single-byte substitution of valid FENs/PGNs, truncations",
    oracle="parsed == original (move / tree incl. comments and NAGs); no two legal moves share a short form; garbage: returns or throws ChessParseError/ChessError within the time "
           "budget with no ASan/UBSan report; an accepted FEN has one king each, no capturable king, and can be hashed, move-generated and written back",
    bound=dict(quick="U-LIKE kings on every 3rd square, U-PERFT depth 2, trees <= 5 nodes, move tokens <= 3, PGN tokens <= 4",
               thorough="U-LIKE all king squares, U-PERFT depth 3, trees <= 7 nodes, move tokens <= 4, PGN tokens <= 5"),
    assumptions=["UCI command-line garbage is exercised by the C05 session enumeration (commands with missing / wrong / huge arguments), not here",
                 "arbitrary 4 KB random strings are replaced by token-level exhaustive enumeration plus complete single-byte mutation"],
    technique="bounded-exhaustive enumeration of positions x moves, of small game trees and of token-level / single-byte-mutated inputs on the real parsers and writers",
    level_text="All inputs of the stated finite families are pushed through the real writers and parsers; round trips are compared exactly and garbage runs under ASan/UBSan with a watchdog.",
    level_note="Trusted: harness PGN writer (standard movetext with numbers, comments in braces, $NAGs, parenthesised variations) and the oracle's legal move lists.",
)

# ------------------------------------------------------------------------------------------ C18
def c18_parts(tier, seed):
    T = "c18_book"
    return [
        P("allcodes", T, "seq", ["--part", "allcodes"], require=["nontrivial"]),
        P("wellformed", T, "seq", ["--part", "wf"], workers=4, require=["nontrivial"]),
        P("truncations", T, "seq", ["--part", "trunc"], require=["nontrivial"]),
        P("byte-corruptions", T, "seq", ["--part", "bytes"], require=["nontrivial"]),
        P("permutations", T, "seq", ["--part", "perm"], require=["nontrivial"]),
        P("builtin", T, "seq", ["--part", "builtin"], require=["nontrivial"]),
        P("legalmoves", T, "seq", ["--part", "legalmoves"], require=["nontrivial"]),
    ]

CHECKS["C18"] = dict(
    parts=c18_parts,
    rule="states = (position, book file) pairs probed, each generated once (all 65536 move codes x 5 positions; every truncation, head cut, single-byte substitution and entry "
         "permutation of four well-formed 8-entry books; every position along every built-in book line); transitions = getBookMove calls (one per RNG outcome); "
         "non-trivial = the probe returned a move for at least one RNG outcome",
    alphabet="book sources: built-in book, polyglot files in memory (memfd); faults: truncation to every length, head cuts, every single-byte substitution, all 8! entry orders, "
             "missing file; environment: every outcome of Random::nextInt (scripted through ld --wrap); legalmoves: every legal move of ~950 positions (castling-ready, queen / rook on e1/e8 "
             "with the king elsewhere, promotions, en passant, all nodes within 1 ply of the 30 seeds) stored alone under the position's key; both the move word and the KEY are computed by the harness from the format description (the key is anchored on the published key of the initial "
             "position and compared with the engine's for every position, incl. all 16 subsets of castling rights)",
    oracle="result is the empty move or legal per the independent oracle; well-formed book: result in the moves stored under key(P), every positive-weight move returned for some r, "
           "zero-weight moves never; built-in book: result in the stored entries and every entry reachable; legalmoves: the probe returns exactly the stored move",
    bound=dict(quick="complete (same as thorough)", thorough="complete"),
    assumptions=["for corrupted weight bytes (sum of weights > 4096) outcomes are enumerated by bisection over r plus the first/last 64 values, assuming selection is monotone in r"],
    technique="exhaustive fault enumeration (every truncation / byte corruption / permutation) and exhaustive environment enumeration (every RNG outcome) on the real book probe",
    level_text="Every fault of the stated families and every RNG outcome is executed against the real Book::getBookMove; legality is judged by an independent oracle.",
    level_note="Trusted: the oracle's legal move lists; book files larger than 8 entries and multi-byte corruptions are not covered.",
)

# ------------------------------------------------------------------------------------------ C19
def c19_parts(tier, seed):
    q = tier == "quick"
    T = "c19_bookbuild"
    return [
        P("from-empty", T, "fast", ["--part", "empty", "--alpha", "small", "--depth", 6 if q else 8], require=["saveloads", "nontrivial"], deadline_frac=0.9),
        P("from-empty-import", T, "seq", ["--part", "empty", "--alpha", "small", "--depth", 4 if q else 6, "--import", 1], require=["saveloads"], deadline_frac=0.9),
        P("from-diamond", T, "seq", ["--part", "diamond", "--alpha", "small" if q else "medium", "--depth", 4 if q else 5], require=["nontrivial"], deadline_frac=0.9),
        P("from-forced-line", T, "seq", ["--part", "forced", "--depth", 4 if q else 5], require=["states"], deadline_frac=0.9),
        P("from-clock-twins", T, "fast", ["--part", "twins", "--depth", 3 if q else 4], require=["states", "nontrivial"], deadline_frac=0.9),
        P("from-long-path", T, "fast", ["--part", "longpath", "--depth", 2 if q else 3], require=["states"], deadline_frac=0.9),
    ] + ([] if q else [P("from-empty-medium", T, "seq", ["--part", "empty", "--alpha", "medium", "--depth", 6], require=["nontrivial"], deadline_frac=0.9)])

CHECKS["C19"] = dict(
    parts=c19_parts,
    rule="states = distinct canonical book states (sorted (hash, search score, best move, pending) tuples) reached by breadth-first search over operation histories, per worker after "
         "the split level; transitions = operations applied (each on a fresh book rebuilt from its history); a state is non-trivial when some node has >= 2 parents",
    alphabet="add position under any node x move alphabet (e3/e4/e6/e5 [+d3/d6, Nf3/Nf6]: transpositions with equal and different path lengths), set search result x scores "
             "{-50,0,30[,mates]} x {no non-book move (IGNORE), non-book best move, book best move}, pending mark toggle, import of 3 small game trees, save + reload; "
             "start states: empty book, a 2/4-ply transposition diamond, a forced-move line (1.e4 f6 2.Qh5+ g6) where IGNORE results are valid, and 'clock twins' (1.e3 e6 2.Nf3 / 1.Nf3 e6 2.e3: "
             "equal placement, different half-move clock, hence two nodes from which the same move leads to one child), and a 'long path' (1.e3 e6 2.e4 e5 3.d3 d6, whose position after "
             "2...e5 is reached two plies earlier by 1.e4 e5: a depth reduction that has to reach grandchildren)",
    oracle="from-scratch reference on the whole graph in every state: links from legal moves, depth = BFS distance, negamax, expansion costs (white/black), path errors, "
           "parent/child symmetry; save+reload reproduces primary data and all derived values of the same history without pending marks",
    bound=dict(quick="depth 6 from the empty book (small alphabet), depth 4 from the diamond and from the forced line, depth 3 from the clock twins", thorough="depth 8 / 5 / 5 plus medium alphabet depth 6, under the deadline"),
    assumptions=["derived fields are excluded from the canonical key because the property says they are functions of the primary data; states merged by the key have equal futures under that assumption, "
                 "and every state's derived values are checked against the reference before merging",
                 "search results stay in the documented domain (IGNORE only when every legal move is a valid book node)"],
    technique="explicit-state breadth-first search over operation histories of the real book object with canonical-state deduplication and a from-scratch reference model",
    level_text="All operation histories up to the depth bound over the stated alphabet, from five start states, are executed on the real BookBuild::Book; every reached state is compared with a from-scratch fixed point.",
    level_note="Trusted: the reference transcription of the header's equations; books larger than ~8 nodes are not reached.",
)

# ------------------------------------------------------------------------------------------ C12
def c12_parts(tier, seed):
    q = tier == "quick"
    T = "c12_tbgen"
    if q:
        return [
            P("exact-3men", T, "seq", ["--part", "exact3", "--wk", 0], require=["terminal", "nontrivial"]),
            P("exact-4men", T, "fast", ["--part", "exact4", "--wk", 2, "--names", "KQvKR,KRvKB,KNvKQ,KBNvK,KvKRR,KRvKR", "--from", (seed * 2) % 36, "--count", 2], require=["nontrivial"], deadline_frac=0.8),
            P("inTT-3men", T, "fast", ["--part", "tt3", "--wk", 0, "--from", 0, "--count", 8], require=["nontrivial"]),
            P("inTT-4men", T, "fast", ["--part", "tt4", "--wk", 2, "--names", "KQvKN", "--from", (seed * 3 + 1) % 36, "--count", 1], require=["nontrivial"], deadline_frac=0.8),
            P("abort-3men", T, "fast", ["--part", "abort3", "--from", 0, "--count", 8], require=["aborted_generations"], deadline_frac=0.9),
        ]
    return [
        P("exact-3men", T, "seq", ["--part", "exact3", "--wk", 0], require=["terminal", "nontrivial"]),
        P("exact-4men", T, "fast", ["--part", "exact4", "--wk", 0, "--from", 0, "--count", 36], require=["nontrivial"], deadline_frac=0.95),
        P("inTT-3men", T, "fast", ["--part", "tt3", "--wk", 0, "--from", 0, "--count", 8], require=["nontrivial"]),
        P("inTT-4men", T, "fast", ["--part", "tt4", "--wk", 1, "--from", 0, "--count", 36], require=["nontrivial"], deadline_frac=0.95),
        P("abort-3men", T, "fast", ["--part", "abort3", "--from", 0, "--count", 8], require=["aborted_generations"], deadline_frac=0.9),
        P("abort-4men", T, "fast", ["--part", "abort4", "--from", 21, "--count", 2], require=["aborted_generations"], deadline_frac=0.9),
    ]

CHECKS["C12"] = dict(
    parts=c12_parts,
    rule="states = placements visited (every legal placement of the kings plus every sub-multiset of the men, both sides to move; for abort parts: every placement probed after "
         "each aborted generation); transitions = successor probes in the minimax equation; evaluations additionally counts abort points executed; non-trivial = non-terminal "
         "placement (has legal moves) / abort point that really aborted the generation",
    alphabet="material classes: 8 three-men and 36 four-men pawnless classes; storage back ends: VectorStorage and TTStorage inside a 16 MB TranspositionTable through the real updateTB; "
             "faults: clock jump past the time limit at every clock query of a generation, stop request (maxTimeMillis=0) at every clock query",
    oracle="Bellman local consistency: checkmate = mated in 0, stalemate = draw, non-terminal value = minimax of successor values (successors from MoveGen, validated by C01); "
           "out-of-scope positions (pawns, castling rights, other material) not found; after an aborted generation no probe succeeds, used size is restored, and a second complete generation is exact; "
           "when an injected stop / time-out does not make updateTB fail, the table it installed passes the same exactness pass as an undisturbed one",
    bound=dict(quick="all 3-men classes on all 64x64 king placements (vector + TT storage), 4-men classes KQvKR, KRvKB, KNvKQ, KBNvK, KvKRR, KRvKR + 2 rotating (vector storage) and KQvKN + 1 rotating (TT storage) with the white king in the a1-d1-d4 triangle, "
                     "all abort points of all 8 three-men classes", thorough="all 36 4-men classes on every placement, all abort points of all 3-men and 2 four-men classes"),
    assumptions=["the minimax equations use texel's MoveGen for successors; MoveGen is checked against the independent oracle on all <= 4-men placements by C01",
                 "distance to mate ignores the 50-move rule (as the tables do)"],
    technique="exhaustive state enumeration of each table (every placement, both sides) with a local-consistency (Bellman) oracle, plus exhaustive fault-point enumeration of generation",
    level_text="Every entry of every generated table is visited through every symmetry image and checked against the fixed-point equations that characterise exact distance to mate; "
               "every abort point of generation is executed on the real updateTB.",
    level_note="Trusted: uniqueness of the solution of terminal labels + minimax equations (induction on distance); texel's MoveGen (C01).",
)

# ------------------------------------------------------------------------------------------ C13
def c13_parts(tier, seed):
    q = tier == "quick"
    T = "c13_tbsearch"
    if q:
        return [
            P("3men", T, "fast", ["--part", "3men", "--names", "KQvK,KvKR", "--clocks", "0", "--mrange", 1, "--polls", 3, "--stride", 2], require=["nontrivial", "not_completable_roots"], deadline_frac=0.9),
            P("4men", T, "fast", ["--part", "4men", "--names", "KBNvK,KQvKR", "--clocks", "0", "--mrange", 1, "--polls", 3, "--stride", 499], require=["nontrivial", "timed_second_searches"], deadline_frac=0.9),
            P("cancelled-build-3men", T, "fast", ["--part", "cancel", "--names", "KQvK,KvKR", "--roots", 3, "--kstride", 1], workers=8, require=["cancelled_first_searches", "nontrivial"], deadline_frac=0.9),
            P("cancelled-build-4men", T, "fast", ["--part", "cancel", "--names", "KQvKR", "--roots", 2, "--kstride", 128], workers=16, require=["cancelled_first_searches", "nontrivial"], deadline_frac=0.9),
        ]
    return [
        P("cancelled-build-3men", T, "fast", ["--part", "cancel", "--names", "KQvK,KRvK,KvKQ,KvKR,KBvK", "--roots", 3, "--kstride", 1], workers=8, require=["cancelled_first_searches", "nontrivial"], deadline_frac=0.1),
        P("cancelled-build-4men", T, "fast", ["--part", "cancel", "--names", "KQvKR,KBNvK,KRvKB", "--roots", 3, "--kstride", 16], workers=16, require=["cancelled_first_searches", "nontrivial"], deadline_frac=0.25),
        P("3men", T, "fast", ["--part", "3men", "--clocks", "0,99", "--mrange", 2, "--polls", 6], require=["nontrivial", "not_completable_roots"], deadline_frac=0.95),
        P("4men", T, "fast", ["--part", "4men", "--names", "KBNvK,KQvKR,KRvKN,KBBvK,KvKQR,KRvKB", "--clocks", "0,99", "--mrange", 2, "--polls", 6, "--stride", 61], require=["nontrivial"], deadline_frac=0.95),
        P("3men-asan", T, "seq", ["--part", "3men", "--names", "KRvK", "--clocks", "0", "--mrange", 1, "--polls", 3], require=["nontrivial"], deadline_frac=0.95),
    ]

CHECKS["C13"] = dict(
    parts=c13_parts,
    rule="states = (root position, half-move clock) searches executed, each distinct by construction; transitions = PV lines reported; non-trivial = root is won or lost (a mate distance must be reported exactly)",
    alphabet="roots: every legal placement with the white king in the a1-d1-d4 triangle of the material class (4-men classes thinned by a fixed stride), both sides to move; "
             "clocks: 0 [,99] and every clock at which the 50-move margin 100 - hmc - plies-to-mate is in [-m, m]; search: iterativeDeepening(maxDepth=-1, maxNodes=-1) "
             "on a 16 MB table (on-demand tablebase built by updateTB), Threads 1, counting stop handler; "
             "cancelled builds: the longest win, the longest loss and a draw of the class, first searched time-only on a fresh table with a stop (Search::timeLimit(0,0), what the protocol "
             "thread does) delivered at the k-th clock query for every k (4-men: every 128th / 16th, and every k around the end of the build) of the table generation, then searched again without limit and judged",
    oracle="exact DTM from a vector-storage table (C12-checked): completable win/loss => final score 'mate +-N' with N exact and, for wins, the move keeps a shortest mate; "
           "draw => non-mate final score and the move does not lose; mate not completable before the 50-move limit (3-men classes) => final score is not a mate. "
           "Completable: hmc + (2N-1) <= 100 for a win in N, hmc + 2N <= 100 for a loss in N. Final score = last line of the deepest completed iteration",
    bound=dict(quick="KQvK, KvKR (every 2nd triangle placement), KBNvK and KQvKR every 499th placement; clocks 0 and margins -1..1", thorough="all 8 three-men classes, 6 four-men classes every 61st placement, clocks 0, 99, margins -2..2"),
    assumptions=["bound (upper/lower) lines and lines of an interrupted iteration describe single root moves and are not judged",
                 "for 4-men classes a zeroing capture may make a 'not completable' mate completable, so the 50-move clause is judged for 3-men classes only (counted as unverified otherwise)",
                 "the reference table is exact (established by C12 on the same tree)"],
    technique="bounded-exhaustive enumeration of root positions x clocks on the real search with on-demand tablebase, exact-DTM reference",
    level_text="Every root of the stated universes is searched by the real engine code with its on-demand table and compared with exact distance to mate, including all clocks around the 50-move boundary.",
    level_note="Trusted: the C12-validated table generator used as reference; Threads > 1 not covered here.",
)

# ------------------------------------------------------------------------------------------ C04
def c04_parts(tier, seed):
    q = tier == "quick"
    T = "c04_mates"
    if q:
        return [
            P("tb-net1", T, "fast", ["--part", "tb", "--names", "KQvK,KRvK", "--depths", "1,2,3,4", "--tt", "512,65536", "--null", "1,0"], require=["verified_mate_claims", "verified_mated_claims", "mate_in_one_roots"], deadline_frac=0.9),
            P("tb-deep", T, "fast", ["--part", "tb", "--names", "KQvK,KvKR", "--depths", "6", "--tt", "512", "--null", "1", "--stride", 13], require=["verified_mate_claims"], deadline_frac=0.9),
            P("tb-net0", "c04_mates_net0", "fast", ["--part", "tb", "--names", "KRvK", "--depths", "2,4", "--tt", "512", "--null", "1", "--stride", 2], require=["verified_mate_claims"], deadline_frac=0.9),
            P("solver", T, "fast", ["--part", "solver", "--perft", 2, "--maxmate", 2, "--depths", "1,2,3,4,5", "--tt", "512,65536", "--null", "1,0"], require=["mate_in_one_roots", "verified_mate_claims"], deadline_frac=0.9),
            P("tb-asan", T, "seq", ["--part", "tb", "--names", "KQvK", "--depths", "1,2,3", "--tt", "512", "--null", "1", "--stride", 16], require=["verified_mate_claims"], deadline_frac=0.9),
            P("tb-backed", T, "fast", ["--part", "tbsearch", "--names", "KQvKN", "--maxmate", 3, "--stride", 999, "--sstride", 9, "--lstride", 3], require=["verified_mate_claims", "verified_mated_claims", "short_loss_roots"], deadline_frac=0.9),
            P("announce", T, "fast", ["--part", "announce", "--games", 300, "--every", 3, "--depths", "6", "--tt", "65536", "--null", "1", "--maxmate", 3], require=["verified_mate_claims", "corpus_roots"], deadline_frac=0.9),
            P("tb-revisit", T, "fast", ["--part", "tb", "--names", "KRvK", "--depths", "12,8,9,10", "--tt", "65536", "--null", "1", "--stride", 53], require=["verified_mate_claims"], deadline_frac=0.9),
        ]
    return [
        P("tb-net1", T, "fast", ["--part", "tb", "--names", "KQvK,KRvK,KvKQ,KvKR", "--depths", "1,2,3,4,6", "--tt", "512,65536", "--null", "1,0"], require=["verified_mate_claims", "verified_mated_claims", "mate_in_one_roots"], deadline_frac=0.3),
        P("tb-deep", T, "fast", ["--part", "tb", "--names", "KQvK,KRvK,KvKR", "--depths", "8,10,12", "--tt", "512,65536", "--null", "1", "--stride", 3], require=["verified_mate_claims"], deadline_frac=0.3),
        P("tb-4men", T, "fast", ["--part", "tb", "--names", "KBBvK,KBNvK,KQvKR,KRvKN", "--depths", "2,4,6", "--tt", "512", "--null", "1", "--stride", 97], require=["verified_mate_claims"], deadline_frac=0.2),
        P("tb-net0", "c04_mates_net0", "fast", ["--part", "tb", "--names", "KQvK,KRvK", "--depths", "1,2,3,4,6", "--tt", "512", "--null", "1,0"], require=["verified_mate_claims"], deadline_frac=0.2),
        P("solver", T, "fast", ["--part", "solver", "--perft", 3, "--maxmate", 3, "--depths", "1,2,3,4,5,6,7", "--tt", "512,65536", "--null", "1,0"], require=["mate_in_one_roots", "verified_mate_claims"], deadline_frac=0.3),
        P("tb-asan", T, "seq", ["--part", "tb", "--names", "KQvK,KRvK", "--depths", "1,2,3,4", "--tt", "512", "--null", "1", "--stride", 4], require=["verified_mate_claims"], deadline_frac=0.2),
        P("tb-backed", T, "fast", ["--part", "tbsearch", "--names", "KQvKN,KQvKB,KRvKB,KRvKN,KQvKR,KBNvK,KvKQN", "--maxmate", 3, "--stride", 199, "--sstride", 1, "--lstride", 1], require=["verified_mate_claims", "verified_mated_claims", "short_loss_roots"], deadline_frac=0.5),
        P("tb-revisit", T, "fast", ["--part", "tb", "--names", "KRvK,KQvK,KvKR", "--depths", "14,8,9,10,11,12,8", "--tt", "65536", "--null", "1", "--stride", 11], require=["verified_mate_claims"], deadline_frac=0.3),
        P("announce", T, "fast", ["--part", "announce", "--games", 1500, "--every", 2, "--depths", "5,6,8", "--tt", "512,65536", "--null", "1,0", "--maxmate", 3], require=["verified_mate_claims", "corpus_roots"], deadline_frac=0.5),
    ]

CHECKS["C04"] = dict(
    parts=c04_parts,
    rule="states = searches executed ((root, depth, table size, null-move, network) tuples, distinct by construction); transitions = PV lines examined; non-trivial = the search reported at least one mate score",
    alphabet="roots: every legal placement with the white king in the a1-d1-d4 triangle of KQvK, KRvK (and more classes / strides per tier), both sides to move; positions of the seed trees "
             "in which the independent AND/OR solver finds a forced mate; configurations: depth x {512-entry, 64k-entry table} x UseNullMove x synthetic network; tables persist across roots (histories); "
             "tb-revisit: the same root searched to depth 12 and then again to depths 8, 9, 10 on the same hash table (deep entries survive shallower searches: histories of the table); "
             "announce: every position (side to move owning a pawn and a piece, every 3rd ply from ply 12) of 300 (1500) deterministic LCG games that prefer captures and checks every third move, "
             "searched to depth 6 (5, 6, 8; two table sizes; null move on/off) - roots are NOT pre-selected by the solver, false announcements arise where no short mate exists; "
             "tb-backed: searches without depth limit (16 MB table, on-demand tablebase built and consulted) on 4-men roots that will be announced as mates in <= 3 (every 3rd loss / 9th win root of "
             "KQvKN in quick, all of 7 classes in thorough) plus every 999th (199th) other placement",
    oracle="exact distance to mate from a generated table (C12-checked) resp. the AND/OR solver: every exact or lower-bound 'mate N>0' line => mate can be forced within N; the delivered best move keeps a forced mate; "
           "a completed search ending in 'mate -N' => the side is mated within N; mate in one exists => final 'mate 1' and a mating best move at every depth; "
           "tb-backed: only the independent AND/OR solver (exhaustive search with the oracle's move generator, N <= 3) decides; texel's own table is used to select roots, never to judge",
    bound=dict(quick="KQvK/KRvK all triangle placements at depth 1-4 (2 table sizes, null on/off), depth 6 on every 13th, solver roots within 2 plies of 30 seeds with mate <= 2",
               thorough="4 three-men classes to depth 6, depth 8-12 on every 3rd, four 4-men classes thinned, solver roots within 3 plies with mate <= 3"),
    assumptions=["claims whose distance exceeds what the oracle can verify (non-tablebase positions, N > bound) are counted as unverified, never as pass",
                 "depth-limited searches do not build or probe the on-demand tablebase (minProbeDepth = 100): the search's own mate bookkeeping is exercised; the tb-backed part covers the tablebase path", "Threads 1"],
    technique="bounded-exhaustive enumeration of roots x configurations on the real search, exact-DTM and AND/OR-solver reference",
    level_text="Every root of the stated universes is searched by the real code in every configuration of the lattice and every mate announcement is checked against exact game-theoretic values.",
    level_note="Trusted: the C12-validated generator, the independent AND/OR solver.",
)

# ------------------------------------------------------------------------------------------ C03
def c03_parts(tier, seed):
    T = "c03_results"
    return [
        P("sessions", T, "seq", ["--part", "sessions"], require=["nontrivial", "searches"], deadline_frac=0.9),
        P("direct", T, "fast", ["--part", "direct"], require=["nontrivial"], deadline_frac=0.9),
        P("direct-asan", T, "seq", ["--part", "direct", "--ncfg", 1 if tier == "quick" else 6], require=["nontrivial"], deadline_frac=0.9),
    ]

CHECKS["C03"] = dict(
    parts=c03_parts,
    rule="states = sessions (scripts) resp. direct searches executed, each distinct by construction of the nested product; transitions = info lines + bestmove lines judged; "
         "non-trivial = at least one principal variation was reported",
    alphabet="sessions: 10 positions (incl. stalemate, checkmate, single-move, clock-99, promotion, mate-in-one roots) x 19 single option deviations (MultiPV 2/4/256, Strength 0/100/500, "
             "UCI_LimitStrength+UCI_Elo -625/1500/2900, UseNullMove, UCI_AnalyseMode, Contempt +-200, Hash 1, MaxNPS, Threads 2, OwnBook, Ponder) x 8-15 go variants (depth, nodes, mate, movetime, clock, "
             "searchmoves subsets); all pairs of 9 option deviations; ordered pairs of 7 go variants (plain, mate, infinite+stop, ponder+ponderhit, ponder+stop, searchmoves, ponder+searchmoves) on same/other position; "
             "tablebase-resident sessions; direct: every K+P v K placement (wK files a-d, both colours) x 5-6 configurations (depth 2-4, MultiPV, Strength 0/100, single searchmove, 512/16k tables)",
    oracle="independent rules oracle on the transcript: bestmove legal and within this go's searchmoves, 0000 only without (allowed) legal moves, ponder move legal, every PV playable and inside searchmoves, "
           "|cp| < 16000, 1 <= |mate| <= 8000, never both bounds, multi-PV reports contiguous with pairwise distinct first moves, exactly one bestmove per go",
    bound=dict(quick="~3000 sessions, ~1.6M direct searches", thorough="all positions in the pair products, extra go variants, K+Q v K universe, ASan sessions"),
    assumptions=["Threads > 1 results are judged for legality only (schedule dependent); OwnBook combined with searchmoves is outside the property's option list"],
    technique="bounded-exhaustive enumeration of (position, configuration, command history) products on the real UCI stack and search, independent legality oracle",
    level_text="The stated product of positions, option deviations and go-command histories is executed completely on the real engine stack; every reported line is judged by an independent rules oracle.",
    level_note="Trusted: the oracle; configurations outside the lattice (depth > 5, Hash > 16 MB, Threads > 2) are not covered.",
)

# ------------------------------------------------------------------------------------------ C14
def c14_parts(tier, seed):
    T = "c14_clearhash"
    q = tier == "quick"
    return [
        P("histories", T, "fast", ["--part", "histories", "--depth", 10 if q else 12], require=["nontrivial", "fresh_runs"], deadline_frac=0.9),
    ] + ([] if q else [P("histories-asan", T, "seq", ["--part", "histories", "--depth", 7, "--tier", "quick"], require=["nontrivial"], deadline_frac=0.5)])

CHECKS["C14"] = dict(
    parts=c14_parts,
    rule="states = histories executed (one fresh engine process each), distinct by construction; transitions = transcript lines compared; non-trivial = the history leaves residual "
         "state before Clear Hash (anything but exactly one prior trivial search)",
    alphabet="g in 0..16 trivial searches (every value of the 4-bit generation counter) x probes {go depth d on two middlegame positions, go nodes 20000 on an endgame}; "
             "13 operations {depth/nodes/movetime searches on unrelated positions, go infinite on KQK until the on-demand table is resident + stop, ucinewgame, Hash 2->16, MultiPV 3->1, "
             "Strength 500->1000, UCI_AnalyseMode on->off, Contempt 50->0, Threads 2->1, ponder+stop}: every single operation x generation counts around the wrap, every ordered pair "
             "(thorough: triples over a reduced alphabet); same command twice",
    oracle="normalised probe transcript (every info line's depth/score/bound/nodes/pv/hashfull, final node count, bestmove, ponder; time, nps and the once-per-second periodic statistics "
           "lines removed) equals that of the same probe in a freshly started engine; two fresh engines agree with each other (determinism)",
    bound=dict(quick="probe depth 10/9, 51 + 156 + 507 + 3 histories", thorough="probe depth 12/11, triples over a reduced alphabet, more generation counts"),
    assumptions=["Threads 1 for the probe; time-limited probes are outside the property"],
    technique="bounded-exhaustive enumeration of session histories on the real UCI stack (fresh process per history), differential oracle against a fresh engine",
    level_text="All histories of the stated alphabet up to length 2 (3) and every generation-counter value are executed on the real engine and compared line by line with a fresh start.",
    level_note="Trusted: the session runner; histories longer than 3 operations + 16 trivial searches are not covered.",
)

# ------------------------------------------------------------------------------------------ C11
def c11_parts(tier, seed):
    T = "c11_draws"
    q = tier == "quick"
    return [
        P("repetition", T, "fast", ["--part", "rep", "--len", 10 if q else 12], require=["third_occurrence_moves", "second_occurrence_moves"], deadline_frac=0.9),
        P("fifty-move", T, "fast", ["--part", "fifty"], require=["mating_moves", "nontrivial"], deadline_frac=0.9),
        P("repetition-asan", T, "seq", ["--part", "rep", "--len", 6 if q else 8], require=["states"], deadline_frac=0.9),
        P("game-console", "c11_game", "fast", ["--depth", 6 if q else 8], require=["rep_claims_accepted", "fifty_claims_accepted", "claims_due", "nontrivial"], deadline_frac=0.9),
        P("game-console-asan", "c11_game", "seq", ["--depth", 4 if q else 5], require=["rep_claims_accepted", "claims_due"], deadline_frac=0.9),
    ]

CHECKS["C11"] = dict(
    parts=c11_parts,
    rule="states = game histories executed as sessions (rep) resp. searches (fifty), distinct by construction; transitions = (history, move, depth) searches judged; "
         "non-trivial = the history has a candidate move creating a third occurrence / the move completes 100 plies without mating; "
         "game-console: states = distinct complete states of the real Game object (position with raw en-passant square, move list, undo records, offer flags, cursor, claim / resign state) "
         "reached by breadth-first search, transitions = single commands executed and compared, non-trivial = game over, draw offer on the table, or cursor inside the move list",
    alphabet="rep: 6 families (startpos knight shuffles, KRKR shuffle, rook shuffles that lose castling rights, double push with an en-passant capture that is illegal because of a pin, "
             "the same with a legal capture, shuffles after an irreversible prefix) x ALL legal sequences up to length L over the family's reversible alphabet x candidate moves "
             "(alphabet moves + 2 others) x depth {1,2,3[,5]} through the real UCI stack (position fen F moves H; go depth d searchmoves m); "
             "fifty: every KQK/KRK placement (triangle, either colour) with a mate in one at clock 99 [98,100] x every legal move x depth, and clocks 90..110 by FEN on 4 positions; "
             "game-console: 15 start histories (start position, castling-right shuffles, double push with illegal / legal en-passant capture, clocks 97-99 incl. a mating 100th ply and a capture, "
             "mate / stalemate / dead-material in one, each also with a prefix that already holds two occurrences) x all command sequences up to the depth over "
             "{undo, redo, undo-all, redo-all, draw rep, draw 50, draw accept, resign, new/setpos, invalid setpos, and for each of 3-5 moves: m, draw rep m, draw 50 m, draw offer m}",
    oracle="independent oracle: occurrences counted by the FIDE key (placement, side, castling rights, legally possible en-passant capture) since the last irreversible move; "
           "third occurrence => final score exactly 'cp 0'; move completing 100 plies without mate => 'cp 0', mating move => 'mate 1'; plus the session contract; "
           "game-console: after every command the real Game's return value, position, game state, state / result strings, draw-offer flag, cursor and getHistory() equal a reference model "
           "whose chess content (legality, mate, stalemate, dead material, FIDE repetition count over the game line, half-move clock) comes from the independent oracle, "
           "and ComputerPlayer::canClaimDraw equals the rule-derived claim for every legal move of every ALIVE state",
    bound=dict(quick="L = 10 (all 2nd/3rd occurrences at every length and parity up to 11 plies), depth 1-3; game-console: command depth 6 (4 under ASan/UBSan)",
               thorough="L = 12, depth 1-3,5, clocks 98-100; game-console: command depth 8 (5 under ASan/UBSan)"),
    assumptions=["console game mode: what 'redo' and 'setpos' do to an already adjudicated game (claim state kept / reset) is taken from the implementation, the rules are silent on it",
                 "Contempt 0 (a non-zero contempt deliberately shifts the draw score)"],
    technique="bounded-exhaustive enumeration of game histories on the real UCI stack / search with an independent repetition and 50-move oracle, plus explicit-state breadth-first search "
              "over command histories of the real console Game object against a reference model",
    level_text="All histories over the shuffle alphabets up to the length bound are fed to the real engine and every draw-producing move is checked for an exact draw score; "
               "all command sequences up to the depth bound are executed on the real Game object from 15 start histories and compared with the rules after every command.",
    level_note="Trusted: the oracle's repetition key; histories outside the 6 families / 15 start histories are not covered.",
)

# ------------------------------------------------------------------------------------------ C08
def c08_parts(tier, seed):
    T = "c08_tt"
    q = tier == "quick"
    parts = [
        P("slots-2x1", T, "sched", ["--part", "slots", "--threads", 2, "--ops", 1, "--init", 0], require=["probe_hits", "probe_misses"]),
        P("slots-2x1-full", T, "sched", ["--part", "slots", "--threads", 2, "--ops", 1, "--init", 1], require=["schedules"]),
        P("slots-2x1-oldgen", T, "sched", ["--part", "slots", "--threads", 2, "--ops", 1, "--init", 2], require=["probe_hits"]),
        P("slots-2x2", T, "sched", ["--part", "slots", "--threads", 2, "--ops", 2, "--init", 0], require=["probe_hits"], deadline_frac=0.9),
        P("slots-2x2-oldgen", T, "sched", ["--part", "slots", "--threads", 2, "--ops", 2, "--init", 2], require=["probe_hits"], deadline_frac=0.9),
        P("slots-3x1", T, "sched", ["--part", "slots", "--threads", 3, "--ops", 1, "--init", 0], require=["probe_hits"], deadline_frac=0.9),
        P("weak-2x1", T, "sched", ["--part", "weak", "--threads", 2, "--ops", 1, "--init", 0], require=["probe_hits", "probe_misses"]),
        P("weak-2x1-oldgen", T, "sched", ["--part", "weak", "--threads", 2, "--ops", 1, "--init", 2], require=["probe_hits"]),
        P("weak-2x2", T, "sched", ["--part", "weak", "--threads", 2, "--ops", 2, "--init", 0], require=["probe_hits"], deadline_frac=0.9),
        P("weak-3x1", T, "sched", ["--part", "weak", "--threads", 3, "--ops", 1, "--init", 0], require=["probe_hits"], deadline_frac=0.9),
        P("histories", T, "sched", ["--part", "history", "--depth", 6 if q else 8], require=["probe_hits", "probe_misses", "slots_decoded"], deadline_frac=0.9),
        P("ply-shift", T, "sched", ["--part", "ply"], require=["nontrivial"]),
        P("index-sweep", T, "sched", ["--part", "index"], require=["nontrivial"], deadline_frac=0.9),
        P("real-tables-3men", T, "sched-asan", ["--part", "real", "--mb", "7,8,9,12,16,17,31,32,33,64", "--fourmen", 0], workers=10, require=["nontrivial"]),
        P("real-tables-4men", T, "sched", ["--part", "real", "--mb", "7,8,16,64,100,128,255,256,257,258,260,512,515,516" + ("" if q else ",1024,1025,1028,2048,2052"), "--fourmen", 1], workers=16, require=["nontrivial"]),
    ]
    if not q:
        parts += [
            P("slots-2x2-full", T, "sched", ["--part", "slots", "--threads", 2, "--ops", 2, "--init", 1], require=["schedules"], deadline_frac=0.9),
            P("slots-3x1-oldgen", T, "sched", ["--part", "slots", "--threads", 3, "--ops", 1, "--init", 2], require=["probe_hits"], deadline_frac=0.9),
            P("slots-3x2", T, "sched", ["--part", "slots", "--threads", 3, "--ops", 2, "--init", 0, "--maxsched", 2000000], require=["probe_hits"], deadline_frac=0.4),
            P("slots-2x2-asan", T, "sched-asan", ["--part", "slots", "--threads", 2, "--ops", 2, "--init", 0], require=["probe_hits"], deadline_frac=0.9),
            P("weak-2x1-full", T, "sched", ["--part", "weak", "--threads", 2, "--ops", 1, "--init", 1], require=["probe_misses"]),
            P("weak-2x2-full", T, "sched", ["--part", "weak", "--threads", 2, "--ops", 2, "--init", 1], require=["probe_hits"], deadline_frac=0.9),
            P("weak-2x2-oldgen", T, "sched", ["--part", "weak", "--threads", 2, "--ops", 2, "--init", 2], require=["probe_hits"], deadline_frac=0.9),
            P("weak-3x2", T, "sched", ["--part", "weak", "--threads", 3, "--ops", 2, "--init", 0, "--maxcombos", 20000000], require=["probe_hits"], deadline_frac=0.4),
        ]
    return parts

CHECKS["C08"] = dict(
    engine="vsched-explorer",
    parts=c08_parts,
    rule="states = distinct observable states (the 8 words of the bucket + per thread: finished flag, number of atomic accesses done, hash of every value read) reached over all "
         "interleavings of all thread programs, plus scores x plies (ply-shift) and table sizes (index parts); transitions = atomic steps executed / getIndex or getScore evaluations; "
         "non-trivial = every explored interleaving state (two or three threads on one bucket), mate scores, non-power-of-two sizes, tables with a resident tablebase",
    alphabet="slots: 2-3 threads x 1-2 operations from {insert(k0), probe(k0), insert(k1), probe(k1), insert(k2), insert(k0 with empty move), insert(k1 without static evaluation)} on three keys forced into one bucket of the real "
             "TranspositionTable (512 entries); initial bucket {empty, full of other keys, k0 from an older generation}; thread programs up to symmetry, containing >= 1 insert and >= 1 probe; "
             "scheduling points = every atomic load/store (atomic shim), ALL sequentially consistent interleavings, no preemption bound; "
             "weak: writers-only programs of the same shape (2-3 threads x 1-2 inserts from 5 records), for each the set of values every one of the 8 bucket words holds in any reachable state "
             "of any interleaving, then EVERY element of the product of the 8 sets installed in the bucket and probed for the 3 keys (relaxed-memory over-approximation: a relaxed load may "
             "return any value stored to that location); ply: all scores |s| <= MATE0 x plies 0..200 x 0..200, and setBusy on a stored record for every mate score x ply (the record must read back unchanged); "
             "histories: every sequence of up to 6 (8) operations from {12 inserts (three keys, deeper / shallower / same-type records, empty move, no evaluation, mate score, four filler keys), probe k0..k2, "
             "next generation, clear, setBusy} on one bucket, states (8 words + generation + set of records inserted) deduplicated and restored by writing the words back (third-level states are dealt to the workers, each worker deduplicates its own share: a state reached from two shares is counted and expanded twice, never lost); "
             "index: every Hash value 1..1024 MB, powers of two to 2^20 MB, each minus the tablebase region, in-tree sizes, every multiple of 4 in [512, 9000 (70000)] x all 2^16 key "
             "prefixes x low-bit patterns; real tables: reSize(Hash) + real updateTB for Hash in a boundary list, then hash traffic",
    oracle="histories: after every operation every non-empty slot decodes (key word xor data word) to a key and a record that were handed to insert together, and the real probe of that key returns it; "
           "a probe (during or after the interleaving) returns a miss or exactly one record that was passed to insert for that key (move of that call or, for an empty move, of an earlier "
           "record); getScore(q) after setScore(s,p) = s shifted by p-q for mate scores, s otherwise; getIndex+3 < usedSize and 4-aligned; tablebase bytes unchanged by inserts, probes "
           "and generation refreshes and the table still answers",
    bound=dict(quick="sequential histories to depth 6; 2x1 (3 initial contents), 2x2 (2 initial contents), 3x1; weak products for 2x1 (2 initial contents), 2x2, 3x1; full ply product; index sweep with 12 low-bit patterns; real tables Hash <= 516 MB",
               thorough="sequential histories to depth 8; additionally 2x2 full bucket, 3x1 old generation, 3x2 (capped at 2M schedules per program, reported), weak products for all initial contents and 3x2 (programs above 20M mixtures skipped, reported), ASan build, index sweep with 52 patterns, Hash up to 2052 MB"),
    assumptions=["keys and data words of the alphabet satisfy d_A xor d_B != k_A xor k_B (the xor scheme's stated assumption, true for random 64-bit Zobrist keys)",
                 "interleavings are sequentially consistent; weaker orders are covered for the PROBE side only, by the per-location product (any mixture of values ever stored to each word); "
                 "an insert that chooses its slot from such a mixed view is not modelled",
                 "state caching assumes thread-local state is a function of the values read so far (deterministic code)"],
    technique="stateful exhaustive exploration of all interleavings of atomic accesses on the real code (fiber scheduler + atomic shim, state caching), exhaustive enumeration of the "
              "relaxed-memory mixture product collected from those interleavings, explicit-state search over sequential operation histories of one bucket, plus exhaustive enumeration of scores/plies and table sizes",
    level_text="Every sequentially consistent interleaving of the stated small thread programs on one bucket of the real table is explored (no preemption bound) and every probe result is "
               "checked against the set of records ever stored; index arithmetic is enumerated over every configurable size and all 2^16 key prefixes.",
    level_note="Trusted: the fiber scheduler (scheduling points only at atomic accesses; the code between them touches thread-local data only). Weak-memory behaviour: probe side by over-approximation (weak parts), insert side not covered.",
)

# ------------------------------------------------------------------------------------------ C07
def c07_parts(tier, seed):
    q = tier == "quick"
    T, T2 = "c07_eval", "c07_eval_net2"
    parts = [
        P("ops-net1", T, "fast", ["--part", "ops", "--depth", 5 if q else 6], require=["nontrivial"], deadline_frac=0.9),
        P("ops-net2", T2, "fast", ["--part", "ops", "--depth", 4 if q else 5], require=["nontrivial"], deadline_frac=0.9),
        P("ops-asan", T, "seq", ["--part", "ops", "--depth", 3 if q else 5], require=["nontrivial"], deadline_frac=0.9),
        P("search-wrap", T, "fast", ["--part", "search", "--depth", 4 if q else 6, "--perft", 1], require=["wrapped_evaluations"], deadline_frac=0.9),
        P("sym-u3", T, "fast", ["--part", "sym", "--universe", "u3", "--wk", 0], require=["nontrivial"]),
        P("sym-u3-net2", T2, "fast", ["--part", "sym", "--universe", "u3", "--wk", 1], require=["nontrivial"]),
        P("sym-u4", T, "fast", ["--part", "sym", "--universe", "u4", "--wk", 2, "--from", (seed * 6) % 80, "--count", 6 if q else 80], require=["nontrivial"], deadline_frac=0.9),
        P("sym-perft", T, "fast", ["--part", "sym", "--universe", "perft", "--depth", 2 if q else 3], require=["nontrivial"]),
        P("sym-5men", T, "fast", ["--part", "sym", "--universe", "5men", "--ks", 5 if q else 3, "--xs", 3 if q else 2, "--ys", 7 if q else 3], require=["nontrivial"], deadline_frac=0.9),
        P("sym-rules6", T, "fast", ["--part", "sym", "--universe", "rules6", "--ks", 7 if q else 4, "--xs", 7 if q else 5, "--ps", 5 if q else 2], require=["nontrivial"], deadline_frac=0.9),
    ]
    for fl in ("simd-generic", "simd-ssse3", "simd-avx2", "simd-avx512"):
        parts.append(P("stream-" + fl, T, fl, ["--part", "stream"], workers=1, require=["states"]))
        parts.append(P("stream2-" + fl, T2, fl, ["--part", "stream"], workers=1, require=["states"]))
    return parts

def c07_post(part_outcomes, counters):
    v = []
    for prefix in ("stream-", "stream2-"):
        hs = {p: o for p, o in part_outcomes.items() if p.startswith(prefix)}
        vals = set(frozenset(o) for o in hs.values())
        if len(vals) > 1 or len(hs) < 4:
            v.append(dict(sig="simd-variants-disagree", part=prefix + "*", detail="evaluation stream hashes per build: %s" % {p: sorted(o) for p, o in hs.items()}, replay=dict(kind="input", what="stream")))
    return v

CHECKS["C07"] = dict(
    parts=c07_parts, post=c07_post,
    rule="states = operation sequences executed on a fresh machine (ops), searches whose every evaluation was intercepted (search-wrap), positions (sym), stream positions (SIMD); "
         "transitions = operations applied / evaluations compared; non-trivial = the sequence used an incremental update (make/unmake), the search performed >= 1 evaluation, the value is non-zero",
    alphabet="ops: ALL sequences up to depth d over {make first capture / middle / last king move, unmake-or-undo, null-move edit, evaluate, copy-assign from the seed, copy-assign from the "
             "position 2 plies later, 5 direct setPiece edits (> maxIncr pending feature changes), toggle one knight, clear eval hash} from 6 seeds (castling+captures, en passant, "
             "capture-promotions, kings at the e-file mirror boundary, queen-heavy material, middlegame), each on a fresh Evaluate + tables; search: every Evaluate::evalPos call of real "
             "depth-d searches from the seed trees (ld --wrap); sym: U-3 (all), 4-men classes, seed trees, 5-men rule classes KRPKR/KBPKB/KBPKN/KNPKB/KQKRP thinned, 6-men rule classes KRPvKRP, KQvKRBP, KQvKRNP, KQvKRPP on a sub-lattice; contempt 0 and 37/-37; "
             "SIMD: one evaluation stream (621k positions + an incremental walk) in the generic, SSSE3, AVX2 and AVX-512 builds, networks 1 (material + noise) and 2 (extreme weights)",
    oracle="value after any history == from-scratch evaluation by a separate evaluator with forceFullEval and an emptied cache entry; evaluating twice gives the same value; "
           "eval(p) == eval(colour-swapped p) (with negated contempt) and == eval(left-right mirrored p) when no castling rights; identical stream hash in all four SIMD builds",
    bound=dict(quick="ops depth 5 (net1) / 4 (net2, ASan); search depth 4 from roots within 1 ply of 30 seeds; 6 rotating 4-men classes", thorough="ops depth 6/5; search depth 6; all 80 4-men classes"),
    assumptions=["direct edits stay in the FEN-acceptable domain (<= 32 men, one king each, side not to move not in check)",
                 "cache contents are legitimate (cleared, or produced by evaluating other positions), never bit-flipped entries",
                 "build flavours use -O3 like the repository's own build; an evaluator self-test guards against the g++ 12 -O2 miscompilation described in DESIGN.md"],
    technique="bounded-exhaustive enumeration of operation histories on the real evaluator with a from-scratch reference, interception of every evaluation of real searches, exhaustive symmetry checks on small universes, cross-build differential",
    level_text="All operation histories up to the depth bound from each seed are executed on the real incremental evaluator and compared with a from-scratch evaluation; symmetry is checked on complete small universes; all SIMD variants are compared on one stream.",
    level_note="Trusted: the reference evaluator configuration (full refresh + emptied cache entry); kernels are compared end-to-end, not per intrinsic.",
)

# ------------------------------------------------------------------------------------------ C16
def c16_parts(tier, seed):
    T = "c16_proofgame"
    q = tier == "quick"
    return [
        P("filter-tree", T, "fast", ["--part", "filter", "--plies", 4 if q else 5], require=["states"], deadline_frac=0.95),
        P("filter-corpus", T, "fast", ["--part", "filter", "--plies", 0, "--games", 200 if q else 3000, "--every", 5], require=["states"], deadline_frac=0.95),
        P("bound-tree", T, "fast", ["--part", "bound", "--plies", 4 if q else 5], require=["nontrivial"], deadline_frac=0.95),
        P("bound-corpus", T, "fast", ["--part", "bound", "--games", 3000 if q else 20000], require=["nontrivial", "pairs_with_castling", "pairs_with_ep"], deadline_frac=0.95),
        P("iterated", T, "fast", ["--part", "iter", "--plies", 2, "--games", 32 if q else 200], require=["proof_games"], deadline_frac=0.95),
        P("filter-asan", T, "seq", ["--part", "filter", "--plies", 2 if q else 3, "--games", 16, "--every", 8], require=["states"], deadline_frac=0.95),
    ]

CHECKS["C16"] = dict(
    parts=c16_parts,
    rule="states = positions classified by the filter (distinct by placement/side/rights/en-passant) resp. (ancestor, descendant) pairs whose bound was evaluated; transitions = path:/proof: "
         "sequences replayed resp. bounds compared; non-trivial = a proof game was produced / the remaining path contains a capture or a pawn move other than a single push",
    alphabet="every distinct position within k plies of the initial position; positions at every 4th ply of a fixed corpus of N legal games (deterministic LCG walks of <= 150 plies in five fixed styles (uniform, capture/pawn biased, quiet manoeuvring, pawn storm by either side) from the "
             "initial position with >= 26 men, biased every third move towards captures, pawn moves and castling); filterFens (static rules, distance heuristic, last-move analysis, proof kernel, "
             "extended kernel) and filterFensIterated (path + proof game search); bounds for every pair i < j on every line of the depth-k tree and of every corpus game",
    oracle="no reachable position gets 'illegal:'; every path:/proof: sequence is legal from the initial position per the independent oracle and a proof: ends exactly in the goal "
           "(placement, side, rights, en-passant); distLowerBound(P_i -> P_j) <= j - i",
    bound=dict(quick="k = 4 (101k positions, 986k pairs), 200 corpus games for the filter, 3000 for the bound", thorough="k = 5, 3000 / 20000 corpus games"),
    assumptions=["positions deep in a game are reached only through the fixed corpus (a fixed driver, not a run-time sample); its reach is limited",
                 "bound violations on paths containing castling or an en-passant capture are the two known findings (heuristic's relaxed model); all others are violations"],
    technique="bounded-exhaustive enumeration of all positions / game prefixes to a ply bound plus all prefix-suffix pairs of a fixed game corpus on the real proof-game code, independent replay oracle",
    level_text="Every position within the ply bound and every (ancestor, descendant) pair is pushed through the real filter and heuristic; verdicts and move sequences are judged by an independent oracle.",
    level_note="Trusted: the oracle's SAN writer for replaying emitted sequences; games longer than 80 plies and positions with < 26 men are not covered.",
)

# ------------------------------------------------------------------------------------------ C10
def c10_parts(tier, seed):
    T = "c10_sessions"
    q = tier == "quick"
    if q:
        return [
            P("bound1-threads12", T, "sched", ["--part", "explore", "--threads", "1,2", "--bound", 1], require=["schedules", "determinism_checks"], deadline_frac=0.9),
            P("bound2-threads1", T, "sched", ["--part", "explore", "--threads", "1", "--bound", 2, "--scripts", "S1;S2;S4;S13"], require=["schedules"], deadline_frac=0.9),
            P("bound1-threads3", T, "sched", ["--part", "explore", "--threads", "3", "--bound", 1, "--scripts", "S1;S2;S5;S6;S7"], require=["schedules"], deadline_frac=0.9),
            P("deep-default", T, "sched", ["--part", "explore", "--threads", "2,3", "--bound", 0, "--scripts", "D1;D2;D3;D4;D5;D6;D7;D8;S16;S17"], require=["schedules"], deadline_frac=0.9),
            P("deep-bound1", T, "sched", ["--part", "explore", "--threads", "2", "--bound", 1, "--scripts", "D5"], require=["nontrivial"], deadline_frac=0.9),
            P("threads6-default", T, "sched", ["--part", "explore", "--threads", "6", "--bound", 0, "--scripts", "S19"], workers=1, require=["schedules", "end_state_probes"], deadline_frac=0.9),
            P("acktree-3", "c10_acktree", "sched", ["--nodes", 3, "--searches", 1], workers=6, require=["schedules", "trees"], deadline_frac=0.9),
        ]
    return [
        P("acktree-3x2", "c10_acktree", "sched", ["--nodes", 3, "--searches", 2], workers=6, require=["schedules", "trees"], deadline_frac=0.17),
        P("acktree-4", "c10_acktree", "sched", ["--nodes", 4, "--searches", 1], workers=16, require=["schedules", "trees"], deadline_frac=0.15),
        P("bound1-threads6", T, "sched", ["--part", "explore", "--threads", "6", "--bound", 1, "--scripts", "S19"], require=["nontrivial", "end_state_probes"], deadline_frac=0.1),
        P("bound2-threads12", T, "sched", ["--part", "explore", "--threads", "1,2", "--bound", 2], require=["schedules", "determinism_checks"], deadline_frac=0.45),
        P("bound1-threads3", T, "sched", ["--part", "explore", "--threads", "3", "--bound", 1], require=["schedules"], deadline_frac=0.2),
        P("bound3-threads1", T, "sched", ["--part", "explore", "--threads", "1", "--bound", 3, "--scripts", "S1;S2;S13"], require=["schedules"], deadline_frac=0.2),
        P("bound1-asan", T, "sched-asan", ["--part", "explore", "--threads", "2", "--bound", 1, "--scripts", "S1;S2;S3;S5;S7;S9"], require=["schedules"], deadline_frac=0.2),
        P("deep-default", T, "sched", ["--part", "explore", "--threads", "2,3,4", "--bound", 0, "--scripts", "D1;D2;D3;D4;D5;D6;D7;D8;S16;S17"], require=["schedules"], deadline_frac=0.2),
        P("deep-bound1", T, "sched", ["--part", "explore", "--threads", "2", "--bound", 1, "--scripts", "D5;D3;D8;S17"], require=["nontrivial"], deadline_frac=0.4),
    ]

C10_COMMON = dict(
    engine="vsched-explorer",
    rule="states = distinct executions (fingerprint of the granted (thread, operation) sequence) of the real engine stack under the controlled scheduler; transitions = scheduling points "
         "executed; non-trivial = the schedule deviates from the default scheduler at least once",
    alphabet="15 control scripts x Threads in {1,2,3}: go/finish, infinite/stop, ponder/ponderhit, ponder/stop, back-to-back go on positions with disjoint legal moves (white / black to move), "
             "Threads change between searches, quit during search, option change + isready during search, EOF during search, KQK depth 2, ucinewgame between searches, no-legal-move root + "
             "searchmoves, stop after a search that ended by itself, option changes between / during searches followed by a clock-based go; where stated also 8 scripts with real multi-threaded searches "
             "(D1-D8) and 2 scripts changing Threads 8->6 and 2->7 (the worker tree changes shape at 6); scheduling points: every mutex lock/unlock, condition wait/notify, thread create/start/exit/join, sleep, sequentially "
             "consistent atomic store/RMW (search, quitFlag, terminate, ponder, infinite, node counters); the script driver is a scheduled thread too (command arrival relative to search progress); "
             "script S19 (Threads 6: a helper with a helper of its own; go infinite / stop / second go); "
             "ack-tree parts: the real ThreadCommunicator objects arranged in every rooted tree of up to 3 (thorough 4) nodes, fibers running the message loops of the engine thread and of "
             "the helpers (start, optional result report, stop, acknowledgement; one or two searches), scheduling points = every mailbox mutex acquisition, ALL interleavings with caching "
             "of the complete protocol state (mailboxes, counters, notifier flags, helper job state), no preemption bound",
    oracle="at every search start (wrapped Communicator::sendInitSearch) and at session end, and in the ack-tree parts whenever the root has collected its acknowledgements: every helper has "
           "jobId == -1, every communicator of the worker tree hasStopAck(), no start/stop/result/ack command is left in any mailbox; "
           "in every execution: no deadlock (no enabled thread while some are unfinished), no livelock (step horizon), replay never diverges; transcript contract (exactly one bestmove per go, "
           "not before the releasing stop/ponderhit/quit/EOF/next go for ponder and infinite searches, one readyok per isready, no info after bestmove, well-formed lines), best move legal for the "
           "position of THAT go (S5: disjoint move sets expose results attributed to the wrong search), 0000 only without legal moves, child exit status 0",
    assumptions=["delay bounding: every choice other than the default scheduler's costs one deviation; the default scheduler keeps the running thread, treats sleeping and mailbox-polling "
                 "threads as yielding and rotates after 64 consecutive steps (starvation bound); relaxed atomic accesses (hash table words, time limits) and atomic loads are not "
                 "scheduling points; sequentially consistent interleavings only", "Threads <= 3 (6 for S19); roots with 0-6 legal moves keep a session at 300-4000 scheduling points",
                 "ack-tree parts: the helper side (WorkerThread::mainLoop and WorkerThread::CommHandler, which cannot run without spawning OS threads) is mirrored statement by statement in the harness; "
                 "Communicator / ThreadCommunicator (queues, counters, filters, forwarding) are the real code; the same protocol runs on the real WorkerThread in the session parts"],
)
CHECKS["C10"] = dict(
    parts=c10_parts,
    bound=dict(quick="delay bound 1 for all 15 control scripts with Threads 1 and 2; delay bound 2 for S1, S2, S4, S13 with Threads 1; delay bound 1 for 5 scripts with Threads 3; "
                     "8 scripts with real multi-threaded searches (D1-D8) and 2 scripts that change the thread count across 6 (S16, S17) under the default schedule with Threads 2, 3; "
                     "the timed-ponderhit script D5 at delay bound 1; S19 (Threads 6) under the default schedule; stop/acknowledge protocol on all trees of <= 3 nodes, one search, all interleavings",
               thorough="S19 at delay bound 1; stop/acknowledge protocol on all trees of <= 4 nodes (one search) and <= 3 nodes (two searches), all interleavings, under the deadline; "
                        "delay bound 2 for all control scripts (Threads 1, 2), bound 1 with Threads 3, bound 3 for S1/S2/S13, search scripts with Threads 2-4 and bound 1 for D5/D3/D8/S17, "
                        "under the deadline (unfinished bounds reported as exhaustive:false)"),
    technique="stateless model checking of the real code: token-passing scheduler over hooked synchronisation points, iterative delay-bounded exhaustive exploration, replayable schedules; "
              "stateful exhaustive exploration (fiber scheduler, state caching, no preemption bound) of the stop/acknowledge protocol on the real communicator objects in every worker-tree shape",
    level_text="Every schedule of the real protocol/engine/helper threads within the delay bound is executed (in a forked child, deterministically replayable) and judged; this is exhaustive "
               "up to the bound for the stated scripts, which is the right level for lost wake-ups, deadlocks and misattributed results.",
    level_note="Trusted: the scheduler models mutex/condvar semantics faithfully (real primitives are called only when the model says they cannot block); determinism is re-checked by replaying the default schedule.",
    **C10_COMMON)

# ------------------------------------------------------------------------------------------ C09
TSAN_ENV = {"TSAN_OPTIONS": "die_after_fork=0 exitcode=66 halt_on_error=1 report_signal_unsafe=0"}
def c09_parts(tier, seed):
    T = "c10_sessions"
    q = tier == "quick"
    DEEP = "D1;D2;D3;D4;D5;D6;D7;D8"
    if q:
        return [
            P("tsan-default-all", T, "sched-tsan", ["--part", "explore", "--threads", "2,3", "--bound", 0, "--scripts", "S1;S2;S3;S4;S5;S6;S7;S8;S9;S10;S11;S12;S13;S14;S15;S16;S17;S18;S19"], workers=10, env=TSAN_ENV, require=["schedules"], deadline_frac=0.9),
            P("tsan-deep-default", T, "sched-tsan", ["--part", "explore", "--threads", "2", "--bound", 0, "--scripts", DEEP], workers=8, env=TSAN_ENV, require=["schedules"], deadline_frac=0.9),
            P("tsan-deep-threads3", T, "sched-tsan", ["--part", "explore", "--threads", "3", "--bound", 0, "--scripts", "D2;D3;D4;D5;D8"], workers=5, env=TSAN_ENV, require=["schedules"], deadline_frac=0.9),
            P("tsan-bound1-options", T, "sched-tsan", ["--part", "explore", "--threads", "1", "--bound", 1, "--scripts", "S14"], workers=8, env=TSAN_ENV, require=["nontrivial"], deadline_frac=0.9),
            P("tsan-bound1-threads2", T, "sched-tsan", ["--part", "explore", "--threads", "2", "--bound", 1, "--scripts", "S2"], workers=16, env=TSAN_ENV, require=["nontrivial"], deadline_frac=0.9),
            P("tsan-pools", T, "sched-tsan", ["--part", "pool", "--bound", 1, "--poolcap", 12], workers=4, env=TSAN_ENV, require=["schedules"], deadline_frac=0.9),
            P("tsan-free", T, "sched-tsan", ["--part", "free", "--threads", "4,8", "--scripts", "S1;S2;S3;S5;S7;S14;S15;S16;S17;S18;D1;D6", "--reps", 1], workers=6, env=TSAN_ENV, require=["schedules"], deadline_frac=0.9),
        ]
    return [
        P("tsan-bound1-all", T, "sched-tsan", ["--part", "explore", "--threads", "2,3", "--bound", 1, "--scripts", "S1;S2;S3;S4;S5;S6;S7;S8;S9;S10;S11;S12;S13;S14;S15;S18"], workers=16, env=TSAN_ENV, require=["schedules"], deadline_frac=0.8),
        P("tsan-deep-default", T, "sched-tsan", ["--part", "explore", "--threads", "2,3,4", "--bound", 0, "--scripts", DEEP], workers=16, env=TSAN_ENV, require=["schedules"], deadline_frac=0.3),
        P("tsan-deep-bound1", T, "sched-tsan", ["--part", "explore", "--threads", "2", "--bound", 1, "--scripts", "D5;D3"], workers=16, env=TSAN_ENV, require=["nontrivial"], deadline_frac=0.5),
        P("tsan-bound1-options", T, "sched-tsan", ["--part", "explore", "--threads", "1,2", "--bound", 1, "--scripts", "S14;S15"], workers=8, env=TSAN_ENV, require=["nontrivial"], deadline_frac=0.6),
        P("tsan-pools", T, "sched-tsan", ["--part", "pool", "--bound", 1, "--poolcap", 200], workers=4, env=TSAN_ENV, require=["schedules"], deadline_frac=0.3),
        P("tsan-free", T, "sched-tsan", ["--part", "free", "--threads", "2,4,8", "--scripts", "S1;S2;S3;S4;S5;S6;S7;S8;S9;S11;S14;S15;S16;S17;S18;" + DEEP, "--reps", 3], workers=6, env=TSAN_ENV, require=["schedules"], deadline_frac=0.3),
    ]

CHECKS["C09"] = dict(
    parts=c09_parts,
    bound=dict(quick="default schedule of all control scripts (S1-S19; S16/S17 change the thread count across 6, S19 runs with Threads 6) and of 8 scripts with real multi-threaded searches (depth 4-5, MultiPV, node limit, tablebase generation inside the hash table, "
                     "ponderhit, Clear Hash / new game / thread-count change between searches, stop in mid-search) with Threads 2 (five of them also with Threads 3); delay bound 1 of S14 (Threads 1) and S2 (Threads 2); "
                     "worker pools (proof-game filter with 3 workers, hash-table clear pool) default + 12 single deviations; free-running complement: 9 scripts x Threads 4, 8",
               thorough="delay bound 1 for all 15 control scripts with Threads 2 and 3 and for two search scripts, deep scripts also with Threads 4, under the deadline (unfinished bounds are reported as exhaustive:false)"),
    technique="stateless model checking of the real code under the controlled scheduler with ThreadSanitizer's happens-before race detection applied to every explored schedule "
              "(scheduler hand-offs are invisible to it), plus a free-running sampling complement reported separately",
    level_text="Every explored schedule of the real engine threads is analysed by ThreadSanitizer's happens-before detector; because the scheduler's token hand-off uses raw futexes in an "
               "uninstrumented translation unit, only the program's own synchronisation orders accesses, so a missing lock or atomic is reported even though the threads are serialised.",
    level_note="Trusted: ThreadSanitizer (gcc 12) and its interceptors; libstdc++ iostream internals and the network evaluation kernels (lib/texellib/nn/nneval.cpp: thread-owned accumulators and "
               "read-only weights) are uninstrumented; multi-threaded searches are explored under the default schedule and single deviations only.",
    **dict(C10_COMMON, oracle="no ThreadSanitizer report in any explored schedule (report text + schedule stored in the replay file); additionally the C10 oracles (deadlock, contract)",
           alphabet=C10_COMMON["alphabet"] + "; additionally 8 scripts with real multi-threaded searches (D1-D8: depth 5 from the start position, MultiPV 3, on-demand tablebase generation inside a 16 MB "
                    "hash table during go infinite, node limit, timed ponderhit, Clear Hash + ucinewgame between two depth-3 searches, Threads change between two depth-3 searches, stop in mid-search) "
                    "and two worker-pool bodies (ProofGameFilter with 3 workers, TranspositionTable::clear on 2M entries)",
           assumptions=C10_COMMON["assumptions"] + ["accesses made inside lib/texellib/nn/nneval.cpp (network kernels: per-thread accumulators, read-only weights) are invisible to the detector: "
                    "that file is compiled without instrumentation in the ThreadSanitizer flavours, because its byte-wise loops made every search ~100 times slower and confined the check to toy searches"]))

# ------------------------------------------------------------------------------------------ C05
def c05_parts(tier, seed):
    q = tier == "quick"
    return [
        P("histories", "c05_uci", "seq" if q else "fast", ["--part", "histories", "--len", 3 if q else 4], require=["nontrivial"], deadline_frac=0.9),
        P("garbage-lines", "c05_uci", "seq", ["--part", "garbage"], require=["nontrivial"], deadline_frac=0.9),
        P("schedules", "c10_sessions", "sched", ["--part", "explore", "--threads", "1" if q else "1,2", "--bound", 1], require=["schedules"], deadline_frac=0.9),
    ] + ([] if q else [P("histories-asan", "c05_uci", "seq", ["--part", "histories", "--len", 3], require=["nontrivial"], deadline_frac=0.5)])

CHECKS["C05"] = dict(
    parts=c05_parts,
    rule="states = sessions executed (one forked child each; command sequences distinct by construction, schedules distinct by fingerprint); transitions = transcript lines judged "
         "resp. scheduling points; non-trivial = the session contains at least one go / the schedule deviates from the default",
    alphabet="histories: ALL command sequences of length <= L over 30 commands {uci, isready, ucinewgame, setoption x8 (Hash 1, Threads 2, MultiPV 2, Clear Hash, Ponder, Strength 0, an out-of-range "
             "value, an unknown name), position x5 (startpos, with moves, stalemate FEN, one-legal-move FEN, malformed FEN), go x9 (depth, nodes, movetime, clock, mate, infinite, ponder, searchmoves, "
             "no arguments), stop, ponderhit, quit, unknown word, blank line} ended by EOF, each in an eager (all at once) and a patient (await bestmove / readyok) delivery regime; "
             "garbage: 35 malformed command lines alone, before a search, during a search and in all ordered pairs; schedules: the C10 script list under the controlled scheduler",
    oracle="contract automaton on the transcript: one readyok per isready, one bestmove per go (after it; for infinite / ponder not before stop / ponderhit / quit / EOF / next go), no info after "
           "a bestmove until the next go, every line well-formed, best moves legal, exit status 0, no signal, no sanitizer report, no hang (re-run alone with a 10x limit before calling it one)",
    bound=dict(quick="L = 3 (27 930 sequences x 2 regimes, ASan/UBSan build), garbage pairs, schedules at delay bound 1 with Threads 1",
               thorough="L = 4 restricted to sequences containing a go (~1.2 M sessions), schedules with Threads 1 and 2"),
    assumptions=["sessions of ~60 commands are not enumerated; the controller's state (engine created?, searching?) is small and every combination is reached within 3 commands "
                 "(the evidence lists the controller states seen)", "move lists given to 'position' are legal (illegal moves are outside the property's domain)"],
    technique="bounded-exhaustive enumeration of command histories on the real UCI stack (fresh process per history) with a protocol automaton as oracle, plus delay-bounded schedule exploration",
    level_text="Every command sequence up to the length bound, in two delivery regimes, is executed on the real protocol/engine threads and judged by a contract automaton; interleavings of "
               "command arrival with search progress are explored by the controlled scheduler.",
    level_note="Trusted: the transcript analyser; free-running sessions see the OS's schedule only (the scheduled part covers interleavings).",
)

# ------------------------------------------------------------------------------------------ C06
def c06_parts(tier, seed):
    T = "c06_time"
    return [
        P("allocation-grid", T, "sched", ["--part", "grid"], require=["nontrivial"]),
        P("delivery-rate1", T, "sched", ["--part", "delivery", "--rate", 1], require=["nontrivial", "searched_moves", "stops_landing_mid_interval"], deadline_frac=0.9),
        P("delivery-rate100", T, "sched", ["--part", "delivery", "--rate", 100], require=["nontrivial", "stops_landing_mid_interval"], deadline_frac=0.9),
        P("delivery-threads2", T, "sched", ["--part", "delivery", "--rate", 10 if tier == "quick" else 1, "--threads", 2], require=["nontrivial", "stops_landing_mid_interval"], deadline_frac=0.9),
    ] + ([] if tier == "quick" else [P("delivery-asan", T, "sched-asan", ["--part", "delivery", "--rate", 20, "--tier", "quick"], require=["nontrivial"], deadline_frac=0.5)])

CHECKS["C06"] = dict(
    engine="vsched-explorer",
    parts=c06_parts,
    rule="states = (time control, options, side) tuples evaluated by the real computeTimeLimit resp. timed sessions executed; transitions = limit pairs checked / transcript lines; "
         "non-trivial = the buffer actually reduces the budget (grid) / the run ended because of a time limit or an injected stop/ponderhit (not by depth or mate)",
    alphabet="grid: clocks {1,2,9,10,11,99,100,101,999,1000,1001,1999,2000,1e4,1e5,1e6,1e7}^2 x increments {0,1,10,999,1e4,1e5}^2 x movestogo {0,1,2,3,34,35,36,100} x BufferTime "
             "{1,10,1000,10000} x Ponder x side, and movetime {1,10,1000,1e5}; delivery: real UCI sessions (Threads 1, and Threads 2 under the default schedule) under the controlled scheduler with a virtual clock driven by "
             "searched nodes (rate 1 and 100 us per move made by the search): movetime {1,10,50,300}, clock {10,100,1200,2300[,5000]} x movestogo {0,1,2,35} x inc {0,50} x options "
             "{default, BufferTime 1, Ponder[, BufferTime 10000, MaxNPS]} x positions {one legal move, KPK, startpos, middlegame}; stop / ponderhit injected (500 + 613 k) searched nodes after the go, k = 1..10 (24): every phase of the 1000-node polling interval",
    oracle="grid: 1 <= soft <= hard <= budget (movetime, resp. clock - min(BufferTime, 0.9 clock)), read from the real object; delivery (virtual time): bestmove - go <= budget + I with the "
           "nominal polling interval I = 2 x 1000 nodes x rate (+1 ms rounding); after stop / ponderhit with exhausted limits bestmove - return of the limit-changing Search::timeLimit call "
           "<= I + 10 ms (release loop); plus deadlock / contract oracles",
    bound=dict(quick="full grid (1.3 M tuples); 512 timed sessions per rate (1, 100 us/node with Threads 1; 10 us/node with Threads 2)", thorough="more options and clocks, k up to 24, Threads 2 at 1 us/node, ASan sessions"),
    assumptions=["wall-clock behaviour (OS stalls) is outside any deterministic check; clocks of 0 and increments > 1e5 are outside the quantifier",
                 "the virtual clock advances only with moves made by the search (ld --wrap of Position::makeMove) and with sleeps; scheduling points and clock queries are free",
                 "with Threads 2 virtual time is the work of the main search thread only (under a serialising scheduler a helper's nodes must not consume the time of a thread that is not running); "
                 "timed sessions are executed under the default schedule, not explored over schedules"],
    technique="exhaustive enumeration of the time-allocation grid on the real code, plus deterministic execution of timed sessions under a controlled scheduler and virtual clock with fault "
              "(stop / ponderhit) injection at every polling index",
    level_text="The allocation arithmetic is evaluated on the complete boundary grid; delivery is checked by running the real engine under a node-driven virtual clock, so every run is deterministic and replayable.",
    level_note="Trusted: the virtual clock seam (clock_gettime, nanosleep interposition; makeMove wrap as work tick).",
)
